package main

// Translation of contract expressions into SMT terms, in a given pair of states (current, old).

import (
	"fmt"
	"go/constant"
	"go/types"
	"strconv"
	"strings"

	"golang.org/x/tools/go/ssa"
)

type SpecEnv struct {
	vc     *FnVC
	vars   map[string]Val
	cur    *State
	old    *State
	pkg    *types.Package // package in which identifiers are resolved
	fn     *ssa.Function  // function whose locals may be named (invariants), may be nil
	useLocals bool
	side   []string // side facts (pure function posts) to assume
	depth  int
	predStack []string
	witFn  string // key of the function whose witnesses are visible
	prev   *State // state at the loop head (for `prev(e)` in step clauses)
}

func (vc *FnVC) newEnv(con *Contract, callee *ssa.Function) *SpecEnv {
	env := &SpecEnv{vc: vc, vars: map[string]Val{}, cur: vc.st, old: vc.entry, witFn: vc.key}
	if callee != nil && callee.Pkg != nil {
		env.pkg = callee.Pkg.Pkg
	} else if con != nil {
		env.pkg = vc.eng.pkgByName(con.Pkg)
	}
	if env.pkg == nil && vc.fn.Pkg != nil {
		env.pkg = vc.fn.Pkg.Pkg
	}
	return env
}

type specFail string

func (e *SpecEnv) fail(f string, a ...interface{}) {
	panic(specFail(fmt.Sprintf(f, a...)))
}

func (e *SpecEnv) boolExpr(x *SpecExpr) string {
	v := e.expr(x)
	if v.K != SBool {
		e.fail("expected boolean expression, got sort %s in %s", v.K, x)
	}
	return v.S
}

func (e *SpecEnv) intExpr(x *SpecExpr) string {
	v := e.expr(x)
	if v.K != SInt {
		e.fail("expected integer expression, got sort %s in %s", v.K, x)
	}
	return v.S
}

func (e *SpecEnv) specType(name string) (types.Type, Sort) {
	switch name {
	case "int":
		return types.Typ[types.Int], SInt
	case "bool":
		return types.Typ[types.Bool], SBool
	case "string":
		return types.Typ[types.String], SStr
	case "rune":
		return types.Typ[types.Rune], SInt
	case "byte":
		return types.Typ[types.Uint8], SInt
	case "float64":
		return types.Typ[types.Float64], SF64
	case "ref":
		return nil, SInt
	}
	if t := e.lookupType(name); t != nil {
		return t, e.vc.sorts.sortOf(t)
	}
	e.fail("unknown type %s", name)
	return nil, ""
}

// lookupType resolves "*T", "pkg.T", "*pkg.T", "[]T".
func (e *SpecEnv) lookupType(name string) types.Type {
	if strings.HasPrefix(name, "*") {
		t := e.lookupType(name[1:])
		if t == nil {
			return nil
		}
		return types.NewPointer(t)
	}
	if strings.HasPrefix(name, "[]") {
		t := e.lookupType(name[2:])
		if t == nil {
			return nil
		}
		return types.NewSlice(t)
	}
	switch name {
	case "int":
		return types.Typ[types.Int]
	case "string":
		return types.Typ[types.String]
	case "bool":
		return types.Typ[types.Bool]
	case "float64":
		return types.Typ[types.Float64]
	case "rune":
		return types.Typ[types.Rune]
	case "byte":
		return types.Typ[types.Uint8]
	case "error":
		return types.Universe.Lookup("error").Type()
	case "any":
		return types.NewInterfaceType(nil, nil)
	case "anyslice": // []interface{}
		return types.NewSlice(types.NewInterfaceType(nil, nil))
	case "anymap": // map[string]interface{}
		return types.NewMap(types.Typ[types.String], types.NewInterfaceType(nil, nil))
	}
	pkg := e.pkg
	if i := strings.Index(name, "."); i >= 0 {
		pkg = e.importByName(name[:i])
		name = name[i+1:]
	}
	if pkg == nil {
		return nil
	}
	if o := pkg.Scope().Lookup(name); o != nil {
		if tn, ok := o.(*types.TypeName); ok {
			return tn.Type()
		}
	}
	return nil
}

func (e *SpecEnv) importByName(n string) *types.Package {
	if e.pkg != nil {
		if e.pkg.Name() == n {
			return e.pkg
		}
		// import aliases used in the package's files
		if p := e.vc.eng.importAlias(e.pkg, n); p != nil {
			return p
		}
		for _, im := range e.pkg.Imports() {
			if im.Name() == n {
				return im
			}
		}
	}
	return e.vc.eng.pkgByName(n)
}

func (e *SpecEnv) lookupGlobal(name string) *ssa.Global {
	pkg := e.pkg
	if i := strings.Index(name, "."); i >= 0 {
		pkg = e.importByName(name[:i])
		name = name[i+1:]
	}
	if pkg == nil {
		return nil
	}
	sp := e.vc.eng.prog.Package(pkg)
	if sp == nil {
		return nil
	}
	if g, ok := sp.Members[name].(*ssa.Global); ok {
		return g
	}
	return nil
}

func (e *SpecEnv) st(inOld bool) *State {
	if inOld {
		return e.old
	}
	return e.cur
}

func (e *SpecEnv) expr(x *SpecExpr) Val { return e.ex(x, false) }

func constToVal(vc *FnVC, c constant.Value, t types.Type) Val {
	switch c.Kind() {
	case constant.Bool:
		if constant.BoolVal(c) {
			return Val{"true", t, SBool}
		}
		return Val{"false", t, SBool}
	case constant.String:
		return Val{vc.sorts.lit(constant.StringVal(c)), t, SStr}
	case constant.Int:
		s := c.ExactString()
		if strings.HasPrefix(s, "-") {
			s = "(- " + s[1:] + ")"
		}
		if isFloat(t) {
			f, _ := constant.Float64Val(c)
			return Val{f64Lit(f), t, SF64}
		}
		return Val{s, t, SInt}
	case constant.Float:
		f, _ := constant.Float64Val(c)
		return Val{f64Lit(f), t, SF64}
	}
	panic(specFail("unsupported constant"))
}

func (e *SpecEnv) ident(name string, inOld bool) Val {
	if v, ok := e.vars[name]; ok {
		return v
	}
	vc := e.vc
	switch name {
	case "nil":
		return Val{"nil", nil, "Nil"}
	case "true":
		return Val{"true", types.Typ[types.Bool], SBool}
	case "false":
		return Val{"false", types.Typ[types.Bool], SBool}
	case "$alloc":
		return Val{vc.curIn(e.st(inOld), vc.allocKey()), nil, SInt}
	case "$tick":
		vc.registerKey("$tick", SInt)
		return Val{vc.curIn(e.st(inOld), "$tick"), nil, SInt}
	}
	if e.useLocals && inOld {
		if pv, ok := vc.paramVals[name]; ok {
			return pv
		}
	}
	if e.useLocals {
		// name or name#k
		base, k := name, 1
		if i := strings.Index(name, "#"); i >= 0 {
			base = name[:i]
			k, _ = strconv.Atoi(name[i+1:])
		}
		if as := vc.allocNames[base]; len(as) >= k && k >= 1 {
			a := as[k-1]
			et := a.Type().(*types.Pointer).Elem()
			ad := vc.addrs[a]
			if ad == nil {
				// not yet executed: zero value
				return Val{vc.sorts.zero(et), et, vc.sorts.sortOf(et)}
			}
			if a.Heap {
				return Val{vc.loadIn(e.st(inOld), ad), et, vc.sorts.sortOf(et)}
			}
			st := e.st(inOld)
			if t, ok := st.locals[a]; ok {
				return Val{t, et, vc.sorts.sortOf(et)}
			}
			return Val{vc.sorts.zero(et), et, vc.sorts.sortOf(et)}
		}
	}
	// package-level object
	if e.pkg != nil {
		if o := e.pkg.Scope().Lookup(name); o != nil {
			return e.object(o, inOld)
		}
	}
	// ghost constants (any package)
	for gk, gt := range vc.eng.specs.GhostVars {
		if strings.HasSuffix(gk, "."+name) {
			sub := &SpecEnv{vc: vc, vars: map[string]Val{}, cur: e.cur, old: e.old, pkg: vc.eng.pkgByName(gk[:strings.Index(gk, ".")]), witFn: e.witFn}
			t, k := sub.specType(gt)
			cn := "ghost$" + sanitize(gk)
			vc.declare(cn, k)
			return Val{cn, t, k}
		}
	}
	if o := types.Universe.Lookup(name); o != nil {
		if c, ok := o.(*types.Const); ok {
			return constToVal(vc, c.Val(), c.Type())
		}
	}
	e.fail("unknown identifier %q", name)
	return Val{}
}

func (e *SpecEnv) object(o types.Object, inOld bool) Val {
	vc := e.vc
	switch ob := o.(type) {
	case *types.Const:
		return constToVal(vc, ob.Val(), ob.Type())
	case *types.Var:
		sp := vc.eng.prog.Package(ob.Pkg())
		if sp != nil {
			if g, ok := sp.Members[ob.Name()].(*ssa.Global); ok {
				key, t := vc.globalKey(g)
				vc.eng.useImmutableGlobal(vc, g)
				return Val{vc.curIn(e.st(inOld), key), t, vc.sorts.sortOf(t)}
			}
		}
	}
	e.fail("cannot use %s in a contract", o.Name())
	return Val{}
}

// ifaceNilCmp: an interface value is nil iff its dynamic type is nil.
func ifaceNilCmp(a, b Val) (string, bool) {
	if a.K == "Nil" && b.K == SIface {
		return sEq(sx("if.tag", b.S), "0"), true
	}
	if b.K == "Nil" && a.K == SIface {
		return sEq(sx("if.tag", a.S), "0"), true
	}
	if a.K == "Nil" && b.K == SFunc {
		return sEq(sx("fn.id", b.S), "0"), true
	}
	if b.K == "Nil" && a.K == SFunc {
		return sEq(sx("fn.id", a.S), "0"), true
	}
	return "", false
}

func (e *SpecEnv) coerceNil(a, b Val) (Val, Val) {
	if a.K == "Nil" && b.K != "Nil" {
		a = Val{e.nilOf(b), b.T, b.K}
	}
	if b.K == "Nil" && a.K != "Nil" {
		b = Val{e.nilOf(a), a.T, a.K}
	}
	return a, b
}

func (e *SpecEnv) nilOf(v Val) string {
	switch v.K {
	case SInt:
		return "0"
	case SSlice:
		return "nil.slice"
	case SIface:
		return "nil.iface"
	case SFunc:
		return "nil.func"
	}
	e.fail("nil compared with sort %s", v.K)
	return ""
}

func (e *SpecEnv) ex(x *SpecExpr, inOld bool) Val {
	vc := e.vc
	switch x.Op {
	case "id":
		return e.ident(x.Name, inOld)
	case "int":
		n := x.Name
		if strings.HasPrefix(n, "0x") || strings.HasPrefix(n, "0X") {
			v, err := strconv.ParseInt(n[2:], 16, 64)
			if err != nil {
				e.fail("bad hex literal %s", n)
			}
			n = fmt.Sprint(v)
		}
		return Val{n, types.Typ[types.Int], SInt}
	case "float":
		f, err := strconv.ParseFloat(x.Name, 64)
		if err != nil {
			e.fail("bad float literal")
		}
		return Val{f64Lit(f), types.Typ[types.Float64], SF64}
	case "str":
		return Val{vc.sorts.lit(x.Name), types.Typ[types.String], SStr}
	case "old":
		return e.ex(x.Args[0], true)
	case "un":
		a := e.ex(x.Args[0], inOld)
		switch x.Name {
		case "!":
			return Val{sNot(a.S), a.T, SBool}
		case "-":
			if a.K == SF64 {
				return Val{sx("fp.neg", a.S), a.T, SF64}
			}
			return Val{sx("-", a.S), a.T, SInt}
		}
	case "bin":
		return e.bin(x, inOld)
	case "ite":
		c := e.ex(x.Args[0], inOld)
		a := e.ex(x.Args[1], inOld)
		b := e.ex(x.Args[2], inOld)
		a, b = e.coerceNil(a, b)
		return Val{sIte(c.S, a.S, b.S), a.T, a.K}
	case "let":
		v := e.ex(x.Args[0], inOld)
		save, had := e.vars[x.Vars[0].Name]
		e.vars[x.Vars[0].Name] = v
		r := e.ex(x.Args[1], inOld)
		if had {
			e.vars[x.Vars[0].Name] = save
		} else {
			delete(e.vars, x.Vars[0].Name)
		}
		return r
	case "forall", "exists":
		var binds []string
		saved := map[string]*Val{}
		var guards []string
		for _, v := range x.Vars {
			t, k := e.specType(v.Type)
			e.depth++
			nm := fmt.Sprintf("%s$q%d", sanitize(v.Name), e.depth)
			binds = append(binds, "("+nm+" "+k+")")
			if old, ok := e.vars[v.Name]; ok {
				o := old
				saved[v.Name] = &o
			} else {
				saved[v.Name] = nil
			}
			e.vars[v.Name] = Val{nm, t, k}
			_ = guards
		}
		sideStart := len(e.side)
		body := e.ex(x.Args[0], inOld)
		// side facts (instantiated posts of pure functions) that mention a bound variable hold for every value of it
		for i := sideStart; i < len(e.side); i++ {
			for _, v := range x.Vars {
				if strings.Contains(e.side[i], sanitize(v.Name)+"$q") {
					e.side[i] = "(forall (" + strings.Join(binds, " ") + ") " + e.side[i] + ")"
					break
				}
			}
		}
		var trig string
		for _, tg := range x.Trig {
			tv := e.ex(tg, inOld)
			trig += " :pattern (" + tv.S + ")"
		}
		for n, s := range saved {
			if s == nil {
				delete(e.vars, n)
			} else {
				e.vars[n] = *s
			}
		}
		if body.K != SBool {
			e.fail("quantifier body must be boolean")
		}
		b := body.S
		if trig != "" {
			b = "(! " + b + trig + ")"
		}
		return Val{"(" + x.Op + " (" + strings.Join(binds, " ") + ") " + b + ")", types.Typ[types.Bool], SBool}
	case "sel":
		return e.sel(x, inOld)
	case "idx":
		return e.index(x, inOld)
	case "slice":
		s := e.ex(x.Args[0], inOld)
		lo, hi := "0", ""
		if x.Args[1].Op != "none" {
			lo = e.ex(x.Args[1], inOld).S
		}
		switch s.K {
		case SSlice:
			hi = sx("sl.len", s.S)
			if x.Args[2].Op != "none" {
				hi = e.ex(x.Args[2], inOld).S
			}
			return Val{sx("mk-slice", sx("sl.base", s.S), sx("+", sx("sl.off", s.S), lo), sx("-", hi, lo), sx("-", sx("sl.cap", s.S), lo)), s.T, SSlice}
		case SStr:
			hi = sx("gs.len", s.S)
			if x.Args[2].Op != "none" {
				hi = e.ex(x.Args[2], inOld).S
			}
			return Val{sx("gs.sub", s.S, lo, hi), s.T, SStr}
		}
		e.fail("slice expression on sort %s", s.K)
	case "call":
		return e.call(x, inOld)
	case "cast":
		v := e.ex(x.Args[0], inOld)
		t := e.lookupType(x.Name)
		if t == nil {
			e.fail("unknown type %s", x.Name)
		}
		if v.K != SIface {
			e.fail("type assertion on non-interface")
		}
		return Val{vc.unboxIface(v.S, t), t, vc.sorts.sortOf(t)}
	case "wit":
		e.fail("witness %s must be followed by a field", x.Name)
	}
	e.fail("cannot translate %s", x)
	return Val{}
}

func (e *SpecEnv) bin(x *SpecExpr, inOld bool) Val {
	op := x.Name
	bt := types.Typ[types.Bool]
	switch op {
	case "&&", "||", "==>", "<==>":
		a := e.ex(x.Args[0], inOld)
		b := e.ex(x.Args[1], inOld)
		if a.K != SBool || b.K != SBool {
			e.fail("boolean operator %s on non-boolean operands in %s", op, x)
		}
		switch op {
		case "&&":
			return Val{sAnd(a.S, b.S), bt, SBool}
		case "||":
			return Val{sOr(a.S, b.S), bt, SBool}
		case "==>":
			return Val{sImp(a.S, b.S), bt, SBool}
		default:
			return Val{sEq(a.S, b.S), bt, SBool}
		}
	}
	a := e.ex(x.Args[0], inOld)
	b := e.ex(x.Args[1], inOld)
	if t, ok := ifaceNilCmp(a, b); ok && (op == "==" || op == "!=") {
		if op == "!=" {
			t = sNot(t)
		}
		return Val{t, bt, SBool}
	}
	a, b = e.coerceNil(a, b)
	if a.K == "Nil" && b.K == "Nil" {
		e.fail("nil compared with nil")
	}
	switch op {
	case "==", "!=":
		if a.K != b.K {
			e.fail("comparison of different sorts (%s vs %s) in %s", a.K, b.K, x)
		}
		eq := sEq(a.S, b.S) // for float64: identity of the value (bitwise, all NaNs equal); IEEE equality is feq(a,b)
		if op == "!=" {
			eq = sNot(eq)
		}
		return Val{eq, bt, SBool}
	case "<", "<=", ">", ">=":
		if a.K == SF64 && b.K == SF64 {
			m := map[string]string{"<": "fp.lt", "<=": "fp.leq", ">": "fp.gt", ">=": "fp.geq"}
			return Val{sx(m[op], a.S, b.S), bt, SBool}
		}
		if a.K != SInt || b.K != SInt {
			e.fail("ordering on sorts %s,%s in %s", a.K, b.K, x)
		}
		return Val{sx(op, a.S, b.S), bt, SBool}
	case "+", "-", "*":
		if a.K == SF64 && b.K == SF64 {
			m := map[string]string{"+": "fp.add", "-": "fp.sub", "*": "fp.mul"}
			return Val{sx(m[op], "RNE", a.S, b.S), a.T, SF64}
		}
		if a.K == SStr && op == "+" {
			return Val{sx("gs.cat", a.S, b.S), a.T, SStr}
		}
		if a.K != SInt || b.K != SInt {
			e.fail("arithmetic on sorts %s,%s in %s", a.K, b.K, x)
		}
		return Val{sx(op, a.S, b.S), types.Typ[types.Int], SInt}
	case "/":
		if a.K == SF64 {
			return Val{sx("fp.div", "RNE", a.S, b.S), a.T, SF64}
		}
		return Val{sx("go.div", a.S, b.S), types.Typ[types.Int], SInt}
	case "%":
		return Val{sx("go.mod", a.S, b.S), types.Typ[types.Int], SInt}
	}
	e.fail("operator %s", op)
	return Val{}
}

func (e *SpecEnv) sel(x *SpecExpr, inOld bool) Val {
	vc := e.vc
	// witness field: @F#k.field
	if x.Args[0].Op == "wit" {
		key := "W$" + x.Args[0].Name + "$" + x.Name
		if !strings.Contains(x.Args[0].Name, "#") {
			key = "W$" + x.Args[0].Name + "#1$" + x.Name
		}
		sort, ok := vc.keySort[key]
		if !ok {
			switch x.Name {
			case "done":
				vc.registerKey(key, SBool)
				sort = SBool
			case "tick", "count":
				vc.registerKey(key, SInt)
				sort = SInt
			default:
				if !vc.registerWitnessSig(strings.TrimPrefix(strings.SplitN(key, "$", 3)[1], ""), x.Name) {
					e.fail("witness %s has no field %s (no such call site in this function)", x.Args[0].Name, x.Name)
				}
				sort = vc.keySort[key]
			}
		}
		t := vc.eng.witTypes[e.witFn+"|"+key]
		return Val{vc.curIn(e.st(inOld), key), t, sort}
	}
	// package-qualified name
	if x.Args[0].Op == "id" {
		if _, isVar := e.vars[x.Args[0].Name]; !isVar {
			isLocal := false
			if e.useLocals {
				if _, ok := vc.allocNames[x.Args[0].Name]; ok {
					isLocal = true
				}
			}
			if !isLocal {
				if e.pkg == nil || e.pkg.Scope().Lookup(x.Args[0].Name) == nil {
					if p := e.importByName(x.Args[0].Name); p != nil {
						if o := p.Scope().Lookup(x.Name); o != nil {
							return e.object(o, inOld)
						}
						e.fail("package %s has no member %s", p.Name(), x.Name)
					}
				}
			}
		}
	}
	b := e.ex(x.Args[0], inOld)
	if b.T == nil {
		e.fail("selector .%s on untyped value in %s", x.Name, x)
	}
	t := b.T
	st := e.st(inOld)
	if pt, ok := t.Underlying().(*types.Pointer); ok {
		s, ok := pt.Elem().Underlying().(*types.Struct)
		if !ok {
			e.fail("selector on pointer to non-struct")
		}
		for i := 0; i < s.NumFields(); i++ {
			if s.Field(i).Name() == x.Name {
				if _, isStruct := s.Field(i).Type().Underlying().(*types.Struct); isStruct {
					ft := s.Field(i).Type()
					return Val{vc.loadObj(st, vc.embRef(pt.Elem(), i, b.S), ft), ft, vc.sorts.sortOf(ft)}
				}
				key, fs, ft := vc.fieldKey(pt.Elem(), i)
				rv := Val{sSelect(vc.curIn(st, key), b.S), ft, fs}
				e.heapFact(st, rv)
				return rv
			}
		}
		e.fail("type %s has no field %s", pt.Elem(), x.Name)
	}
	if s, ok := t.Underlying().(*types.Struct); ok {
		for i := 0; i < s.NumFields(); i++ {
			if s.Field(i).Name() == x.Name {
				ft := s.Field(i).Type()
				return Val{sx(dtAcc(b.K, x.Name), b.S), ft, vc.sorts.sortOf(ft)}
			}
		}
		e.fail("struct has no field %s", x.Name)
	}
	// pseudo-fields
	switch b.K {
	case SSlice:
		switch x.Name {
		case "base", "off":
			return Val{sx("sl."+x.Name, b.S), nil, SInt}
		}
	case SIface:
		switch x.Name {
		case "tag", "ptr":
			return Val{sx("if."+x.Name, b.S), nil, SInt}
		}
	}
	e.fail("cannot select .%s on %s", x.Name, t)
	return Val{}
}

func (e *SpecEnv) index(x *SpecExpr, inOld bool) Val {
	vc := e.vc
	b := e.ex(x.Args[0], inOld)
	i := e.ex(x.Args[1], inOld)
	st := e.st(inOld)
	if b.T == nil {
		// spec-level array sorts
		if strings.HasPrefix(b.K, "(Array ") {
			return Val{sSelect(b.S, i.S), nil, arrayElemSort(b.K)}
		}
		e.fail("index on untyped value")
	}
	switch t := b.T.Underlying().(type) {
	case *types.Slice:
		key, es := vc.memKey(t.Elem())
		rv := Val{sSelect(sSelect(vc.curIn(st, key), sx("sl.base", b.S)), sx("sl.ix", sx("sl.off", b.S), i.S)), t.Elem(), es}
		return rv
	case *types.Array:
		return Val{sSelect(b.S, i.S), t.Elem(), vc.sorts.sortOf(t.Elem())}
	case *types.Map:
		_, val, _, _, vs := vc.mapKeys(t)
		return Val{sSelect(sSelect(vc.curIn(st, val), b.S), i.S), t.Elem(), vs}
	case *types.Basic:
		if isString(b.T) {
			return Val{sx("gs.at", b.S, i.S), types.Typ[types.Uint8], SInt}
		}
	case *types.Pointer:
		if at, ok := t.Elem().Underlying().(*types.Array); ok {
			key, es := vc.memKey(at.Elem())
			return Val{sSelect(sSelect(vc.curIn(st, key), b.S), i.S), at.Elem(), es}
		}
	}
	e.fail("cannot index %s", b.T)
	return Val{}
}

func arrayElemSort(k Sort) Sort {
	// "(Array X Y)" -> Y  (X is a simple sort)
	inner := strings.TrimSuffix(strings.TrimPrefix(k, "(Array "), ")")
	if i := strings.Index(inner, " "); i >= 0 {
		return inner[i+1:]
	}
	return inner
}

func (e *SpecEnv) call(x *SpecExpr, inOld bool) Val {
	vc := e.vc
	bt := types.Typ[types.Bool]
	fnx := x.Args[0]
	args := x.Args[1:]
	name := ""
	if fnx.Op == "id" {
		name = fnx.Name
	} else if fnx.Op == "sel" && fnx.Args[0].Op == "id" {
		name = fnx.Args[0].Name + "." + fnx.Name
	}
	st := e.st(inOld)
	switch name {
	case "prev":
		if e.prev == nil {
			e.fail("prev() outside a loop step clause")
		}
		save := e.cur
		e.cur = e.prev
		r := e.ex(args[0], false)
		e.cur = save
		return r
	case "len":
		a := e.ex(args[0], inOld)
		switch a.K {
		case SSlice:
			return Val{sx("sl.len", a.S), types.Typ[types.Int], SInt}
		case SStr:
			return Val{sx("gs.len", a.S), types.Typ[types.Int], SInt}
		}
		if a.T != nil {
			switch t := a.T.Underlying().(type) {
			case *types.Map:
				_, _, ln, _, _ := vc.mapKeys(t)
				return Val{sSelect(vc.curIn(st, ln), a.S), types.Typ[types.Int], SInt}
			case *types.Array:
				return Val{fmt.Sprint(t.Len()), types.Typ[types.Int], SInt}
			}
		}
		e.fail("len of %s", a.K)
	case "cap":
		a := e.ex(args[0], inOld)
		return Val{sx("sl.cap", a.S), types.Typ[types.Int], SInt}
	case "is":
		a := e.ex(args[0], inOld)
		if args[1].Op != "type" && args[1].Op != "id" && args[1].Op != "sel" {
			e.fail("is(x, T): T must be a type")
		}
		t := e.lookupType(typeArgName(args[1]))
		if t == nil {
			e.fail("unknown type in is(): %s", args[1])
		}
		if a.K != SIface {
			e.fail("is() on non-interface")
		}
		return Val{vc.tagTest(a.S, t), bt, SBool}
	case "as":
		a := e.ex(args[0], inOld)
		t := e.lookupType(typeArgName(args[1]))
		if t == nil {
			e.fail("unknown type in as(): %s", args[1])
		}
		return Val{vc.unboxIface(a.S, t), t, vc.sorts.sortOf(t)}
	case "iface":
		// iface(p, *T): the interface value holding pointer p of dynamic type *T
		a := e.ex(args[0], inOld)
		t := e.lookupType(typeArgName(args[1]))
		if t == nil {
			e.fail("unknown type in iface()")
		}
		return Val{sx("mk-iface", fmt.Sprint(vc.eng.tags.tagOf(t)), a.S), nil, SIface}
	case "fresh":
		a := e.ex(args[0], inOld)
		ref := a.S
		switch a.K {
		case SSlice:
			ref = sx("sl.base", a.S)
		case SIface:
			ref = sx("if.ptr", a.S)
		}
		return Val{sx(">", ref, vc.curIn(e.old, vc.allocKey())), bt, SBool}
	case "allocated":
		a := e.ex(args[0], inOld)
		ref := a.S
		switch a.K {
		case SSlice:
			ref = sx("sl.base", a.S)
		case SIface:
			ref = sx("if.ptr", a.S)
		}
		return Val{sx("<=", ref, vc.curIn(st, vc.allocKey())), bt, SBool}
	case "has":
		m := e.ex(args[0], inOld)
		k := e.ex(args[1], inOld)
		mt, ok := m.T.Underlying().(*types.Map)
		if !ok {
			e.fail("has() on non-map")
		}
		dom, _, _, _, _ := vc.mapKeys(mt)
		return Val{sAnd(sNot(sEq(m.S, "0")), sSelect(sSelect(vc.curIn(st, dom), m.S), k.S)), bt, SBool}
	case "trunc":
		// trunc(x): Go's int(x) for a float64 x (linux/amd64: NaN, infinities and out-of-range values give MinInt64)
		a := e.ex(args[0], inOld)
		vc.sorts.declareFun("f64.toint", "(F64) Int")
		t := sx("f64.toint", a.S)
		tr := sx("fp.to_real", sx("fp.roundToIntegral", "RTZ", a.S))
		lo, hi := "(- 9223372036854775808)", "9223372036854775807"
		ok := sAnd(sNot(sx("fp.isNaN", a.S)), sNot(sx("fp.isInfinite", a.S)), sx("<=", sx("to_real", lo), tr), sx("<=", tr, sx("to_real", hi)))
		e.side = append(e.side, sIte(ok, sEq(sx("to_real", t), tr), sEq(t, lo)))
		return Val{t, types.Typ[types.Int], SInt}
	case "runeCount":
		// runeCount(s): number of characters (code points) of the text s, i.e. len([]rune(s))
		a := e.ex(args[0], inOld)
		vc.declareRuneFns()
		return Val{sx("gs.runeCount", a.S), types.Typ[types.Int], SInt}
	case "runeAt":
		// runeAt(s, i): the i-th character of s, i.e. []rune(s)[i]
		a := e.ex(args[0], inOld)
		i := e.ex(args[1], inOld)
		vc.declareRuneFns()
		return Val{sx("gs.runeAtIdx", a.S, i.S), types.Typ[types.Rune], SInt}
	case "feq":
		a := e.ex(args[0], inOld)
		b := e.ex(args[1], inOld)
		return Val{sx("fp.eq", a.S, b.S), bt, SBool}
	case "floor":
		a := e.ex(args[0], inOld)
		return Val{sx("fp.roundToIntegral", "RTN", a.S), a.T, SF64}
	case "isNaN":
		a := e.ex(args[0], inOld)
		return Val{sx("fp.isNaN", a.S), bt, SBool}
	case "isInf":
		a := e.ex(args[0], inOld)
		return Val{sx("fp.isInfinite", a.S), bt, SBool}
	case "isZero":
		a := e.ex(args[0], inOld)
		return Val{sx("fp.isZero", a.S), bt, SBool}
	case "float":
		a := e.ex(args[0], inOld)
		return Val{sx("(_ to_fp 11 53)", "RNE", sx("to_real", a.S)), types.Typ[types.Float64], SF64}
	case "int", "rune", "byte", "uint8":
		return e.ex(args[0], inOld)
	case "visited":
		// visited(k): in the (single) map-range loop of this function, key k was already delivered
		k := e.ex(args[0], inOld)
		for _, it := range vc.rangeIters {
			if it.kind == "map" {
				return Val{sSelect(vc.curIn(st, it.visitedKey), k.S), bt, SBool}
			}
		}
		e.fail("visited(): no map range in this function (yet)")
	case "strpos":
		for _, it := range vc.rangeIters {
			if it.kind == "string" {
				return Val{vc.curIn(st, it.posKey), types.Typ[types.Int], SInt}
			}
		}
		e.fail("strpos(): no string range in this function (yet)")
	case "sameMem":
		// sameMem(s): the backing array of slice s is unchanged since entry
		a := e.ex(args[0], inOld)
		t, ok := a.T.Underlying().(*types.Slice)
		if !ok {
			e.fail("sameMem on non-slice")
		}
		key, _ := vc.memKey(t.Elem())
		return Val{sEq(sSelect(vc.curIn(e.cur, key), sx("sl.base", a.S)), sSelect(vc.curIn(e.old, key), sx("sl.base", a.S))), bt, SBool}
	}
	// predicate / spec function (inlined)
	if pr := e.lookupPred(name); pr != nil {
		if len(args) != len(pr.Params) {
			e.fail("pred %s: expected %d arguments", name, len(pr.Params))
		}
		if pr.RetTy != "" && e.heapFreeFn(pr) {
			return e.applyDeclaredFn(pr, args, inOld)
		}
		for _, s := range e.predStack {
			if s == pr.Pkg+"."+pr.Name {
				e.fail("recursive pred %s is not supported by inlining", name)
			}
		}
		sub := &SpecEnv{vc: vc, vars: map[string]Val{}, cur: e.cur, old: e.old, pkg: vc.eng.pkgByName(pr.Pkg), depth: e.depth + 10, predStack: append(e.predStack, pr.Pkg+"."+pr.Name), witFn: e.witFn}
		if sub.pkg == nil {
			sub.pkg = e.pkg
		}
		for i, p := range pr.Params {
			av := e.ex(args[i], inOld)
			if av.K == "Nil" {
				t, k := sub.specType(p.Type)
				av = Val{e.nilOf(Val{"", t, k}), t, k}
			}
			if av.T == nil {
				if t, _ := sub.specType(p.Type); t != nil {
					av.T = t
				}
			}
			sub.vars[p.Name] = av
		}
		r := sub.ex(pr.Body, inOld)
		e.side = append(e.side, sub.side...)
		e.depth = sub.depth
		return r
	}
	// pure Go function, heap-independent
	if f := e.lookupFunc(name); f != nil {
		con := vc.eng.contractFor(f)
		if con == nil || !con.Pure || !vc.eng.heapIndependent(f) {
			e.fail("function %s cannot be used in contracts (needs a pure, heap-independent contract)", name)
		}
		var av []Val
		for _, a := range args {
			av = append(av, e.ex(a, inOld))
		}
		term := vc.pureApp(f, av)
		rt := f.Signature.Results().At(0).Type()
		res := Val{term, rt, vc.sorts.sortOf(rt)}
		// instantiate the callee's contract for these arguments: pre ==> post
		sub := &SpecEnv{vc: vc, vars: map[string]Val{}, cur: e.cur, old: e.cur, pkg: f.Pkg.Pkg, depth: e.depth + 10, witFn: e.witFn}
		for i, p := range f.Params {
			if i < len(av) {
				sub.vars[p.Name()] = av[i]
			}
		}
		rn := "r0"
		if n := f.Signature.Results().At(0).Name(); n != "" {
			rn = n
		}
		sub.vars[rn] = res
		if len(con.Results) == 1 {
			sub.vars[con.Results[0]] = res
		}
		if len(con.Params) == len(av) {
			for i, pn := range con.Params {
				sub.vars[pn] = av[i]
			}
		}
		sub.vars["r0"] = res
		sub.vars["result"] = res
		var pres, posts []string
		for _, rq := range con.Requires {
			pres = append(pres, sub.boolExpr(rq.Expr))
		}
		for _, en := range con.Ensures {
			posts = append(posts, sub.boolExpr(en.Expr))
		}
		e.side = append(e.side, sub.side...)
		e.side = append(e.side, sImp(sAnd(pres...), sAnd(append(posts, vc.typeFacts(res))...)))
		vc.calleesUsed[fnKey(f)] = true
		return res
	}
	e.fail("unknown function %q in contract", name)
	return Val{}
}

func typeArgName(x *SpecExpr) string {
	switch x.Op {
	case "type", "id":
		return x.Name
	case "sel":
		return typeArgName(x.Args[0]) + "." + x.Name
	}
	return ""
}

func (e *SpecEnv) lookupPred(name string) *Pred {
	ps := e.vc.eng.specs.Preds
	if strings.Contains(name, ".") {
		return ps[name]
	}
	if e.pkg != nil {
		if p, ok := ps[e.pkg.Name()+"."+name]; ok {
			return p
		}
	}
	var found *Pred
	for k, p := range ps {
		if strings.HasSuffix(k, "."+name) {
			if found != nil && found != p {
				e.fail("ambiguous pred %s", name)
			}
			found = p
		}
	}
	return found
}

func (e *SpecEnv) lookupFunc(name string) *ssa.Function {
	pkg := e.pkg
	if i := strings.Index(name, "."); i >= 0 {
		pkg = e.importByName(name[:i])
		name = name[i+1:]
	}
	if pkg == nil {
		return nil
	}
	sp := e.vc.eng.prog.Package(pkg)
	if sp == nil {
		return nil
	}
	return sp.Func(name)
}

// conjuncts translates a boolean contract expression into its top-level conjuncts (through && and predicate
// applications), so that each becomes its own obligation.
func (e *SpecEnv) conjuncts(x *SpecExpr, inOld bool) []string {
	if x.Op == "bin" && x.Name == "&&" {
		return append(e.conjuncts(x.Args[0], inOld), e.conjuncts(x.Args[1], inOld)...)
	}
	if x.Op == "old" {
		return e.conjuncts(x.Args[0], true)
	}
	if x.Op == "call" && x.Args[0].Op == "id" {
		if pr := e.lookupPred(x.Args[0].Name); pr != nil && (pr.RetTy == "" || pr.RetTy == "bool") && len(x.Args)-1 == len(pr.Params) {
			for _, s := range e.predStack {
				if s == pr.Pkg+"."+pr.Name {
					return []string{e.ex(x, inOld).S}
				}
			}
			sub := &SpecEnv{vc: e.vc, vars: map[string]Val{}, cur: e.cur, old: e.old, pkg: e.vc.eng.pkgByName(pr.Pkg), depth: e.depth + 10, predStack: append(e.predStack, pr.Pkg+"."+pr.Name), witFn: e.witFn}
			if sub.pkg == nil {
				sub.pkg = e.pkg
			}
			for i, p := range pr.Params {
				av := e.ex(x.Args[i+1], inOld)
				if av.K == "Nil" {
					t, k := sub.specType(p.Type)
					av = Val{e.nilOf(Val{"", t, k}), t, k}
				}
				if av.T == nil {
					if t, _ := sub.specType(p.Type); t != nil {
						av.T = t
					}
				}
				sub.vars[p.Name] = av
			}
			r := sub.conjuncts(pr.Body, inOld)
			e.side = append(e.side, sub.side...)
			e.depth = sub.depth
			return r
		}
	}
	v := e.ex(x, inOld)
	if v.K != SBool {
		e.fail("expected boolean expression, got sort %s in %s", v.K, x)
	}
	return []string{v.S}
}

// heapFact: a reference read from the heap in state st was allocated before st (free fact, no quantified variables).
func (e *SpecEnv) heapFact(st *State, v Val) {
	if strings.Contains(v.S, "$q") {
		return
	}
	switch v.K {
	case SInt:
		if v.T == nil {
			return
		}
		switch v.T.Underlying().(type) {
		case *types.Pointer, *types.Map:
		default:
			return
		}
	case SSlice, SIface:
	default:
		return
	}
	if f := e.vc.typeFactsIn(st, v); f != "true" {
		e.side = append(e.side, f)
	}
}

// heapFreeFn: a spec function over scalars whose body reads no heap: emitted once as a declared SMT function with a
// defining axiom (triggered on applications) instead of being inlined - large tables stay out of quantifier bodies.
func (e *SpecEnv) heapFreeFn(pr *Pred) bool {
	for _, p := range pr.Params {
		switch p.Type {
		case "int", "rune", "bool", "byte", "string":
		default:
			return false
		}
	}
	var ok func(x *SpecExpr) bool
	ok = func(x *SpecExpr) bool {
		switch x.Op {
		case "id", "int", "str":
			return true
		case "bin", "un", "ite":
			for _, a := range x.Args {
				if !ok(a) {
					return false
				}
			}
			return true
		case "call":
			if x.Args[0].Op != "id" {
				return false
			}
			q := e.lookupPred(x.Args[0].Name)
			if q == nil || q == pr || q.RetTy == "" || !e.heapFreeFn(q) {
				return false
			}
			for _, a := range x.Args[1:] {
				if !ok(a) {
					return false
				}
			}
			return true
		}
		return false
	}
	return ok(pr.Body)
}

func (e *SpecEnv) applyDeclaredFn(pr *Pred, args []*SpecExpr, inOld bool) Val {
	vc := e.vc
	name := "fn$" + sanitize(pr.Pkg+"."+pr.Name)
	sub := &SpecEnv{vc: vc, vars: map[string]Val{}, cur: e.cur, old: e.old, pkg: vc.eng.pkgByName(pr.Pkg), depth: 1000, witFn: e.witFn}
	if sub.pkg == nil {
		sub.pkg = e.pkg
	}
	rt, rk := sub.specType(pr.RetTy)
	if !vc.sorts.extraSeen[name] {
		var binds, sorts, names []string
		for i, p := range pr.Params {
			t, k := sub.specType(p.Type)
			nm := fmt.Sprintf("x%d$f", i)
			binds = append(binds, "("+nm+" "+k+")")
			sorts = append(sorts, k)
			names = append(names, nm)
			sub.vars[p.Name] = Val{nm, t, k}
		}
		vc.sorts.declareFun(name, "("+strings.Join(sorts, " ")+") "+rk)
		body := sub.ex(pr.Body, false)
		app := sx(name, names...)
		vc.sorts.rawDecl("def$"+name, "(assert (forall ("+strings.Join(binds, " ")+") (! (= "+app+" "+body.S+") :pattern ("+app+"))))")
	}
	var ts []string
	for _, a := range args {
		ts = append(ts, e.ex(a, inOld).S)
	}
	return Val{sx(name, ts...), rt, rk}
}
