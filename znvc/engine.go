package main

import (
	"fmt"
	"go/ast"
	"go/token"
	"go/types"
	"os"
	"path/filepath"
	"sort"
	"strings"

	"golang.org/x/tools/go/packages"
	"golang.org/x/tools/go/ssa"
	"golang.org/x/tools/go/ssa/ssautil"
)

type Engine struct {
	repo     string
	modPath  string // module path of /repo (go.mod)
	fset     *token.FileSet
	pkgs     []*packages.Package
	prog     *ssa.Program
	spkgs    map[string]*ssa.Package // by short name
	ppkgs    map[string]*packages.Package
	specs    *SpecSet
	tags     *TagTable
	funcIDs  map[*ssa.Function]int
	funcs    map[string]*ssa.Function // by key
	witTypes map[string]types.Type
	allTags  bool
	immut    map[*ssa.Global]bool
	immutDone bool
	sccOf    map[*ssa.Function]int
	heapInd  map[*ssa.Function]int
	tableFacts map[string][]string // global key -> verified table facts (SMT templates with %s for the global term)
	refs     map[*ssa.Function][]string
	writers  map[string]bool
	embIDs   map[string]int
}

var loadPatterns = []string{"./pkg/error", "./pkg/runtime", "./pkg/value", "./pkg/syntax", "./pkg/syntax/zh", "./pkg/io", "./pkg/exec", "./pkg/common", "./stdlib/json", "./stdlib/file"}

func loadEngine(repo string) (*Engine, error) {
	fset := token.NewFileSet()
	cfg := &packages.Config{Mode: packages.LoadAllSyntax, Dir: repo, BuildFlags: []string{"-tags=verif"}, Fset: fset,
		Env: append(os.Environ(), "GOFLAGS=-mod=mod", "GOPROXY=off", "GOSUMDB=off", "GOTOOLCHAIN=local")}
	pkgs, err := packages.Load(cfg, loadPatterns...)
	if err != nil {
		return nil, err
	}
	var errs []string
	packages.Visit(pkgs, nil, func(p *packages.Package) {
		if strings.HasPrefix(p.PkgPath, "github.com/DemoHn/Zn") {
			for _, e := range p.Errors {
				errs = append(errs, e.Error())
			}
		}
	})
	if len(errs) > 0 {
		return nil, fmt.Errorf("load errors:\n%s", strings.Join(errs, "\n"))
	}
	prog, _ := ssautil.AllPackages(pkgs, ssa.NaiveForm|ssa.GlobalDebug)
	prog.Build()
	eng := &Engine{repo: repo, modPath: "github.com/DemoHn/Zn", fset: fset, pkgs: pkgs, prog: prog, spkgs: map[string]*ssa.Package{}, ppkgs: map[string]*packages.Package{},
		tags: newTagTable(), funcIDs: map[*ssa.Function]int{}, funcs: map[string]*ssa.Function{}, witTypes: map[string]types.Type{},
		immut: map[*ssa.Global]bool{}, heapInd: map[*ssa.Function]int{}, tableFacts: map[string][]string{}}
	dirs := map[string]string{}
	for _, p := range pkgs {
		sp := prog.Package(p.Types)
		if sp == nil {
			continue
		}
		eng.spkgs[p.Name] = sp
		eng.ppkgs[p.Name] = p
		if len(p.GoFiles) > 0 {
			dirs[p.Name] = filepath.Dir(p.GoFiles[0])
		}
	}
	for f := range ssautil.AllFunctions(prog) {
		root := f
		for root.Parent() != nil {
			root = root.Parent()
		}
		if root.Pkg != nil && strings.HasPrefix(root.Pkg.Pkg.Path(), "github.com/DemoHn/Zn") {
			k := fnKey(f)
			if _, dup := eng.funcs[k]; !dup {
				eng.funcs[k] = f
			}
		}
	}
	eng.specs = loadSpecs(repo, dirs)
	return eng, nil
}

func (eng *Engine) pkgByName(n string) *types.Package {
	if sp, ok := eng.spkgs[n]; ok {
		return sp.Pkg
	}
	for _, p := range eng.prog.AllPackages() {
		if p.Pkg.Name() == n {
			return p.Pkg
		}
	}
	return nil
}

// importAlias resolves an import alias used in the files of pkg (e.g. zerr, r).
func (eng *Engine) importAlias(pkg *types.Package, alias string) *types.Package {
	pp := eng.ppkgs[pkg.Name()]
	if pp == nil || pp.Types != pkg {
		return nil
	}
	for _, f := range pp.Syntax {
		for _, im := range f.Imports {
			if im.Name != nil && im.Name.Name == alias {
				path := strings.Trim(im.Path.Value, "\"")
				if ip, ok := pp.Imports[path]; ok {
					return ip.Types
				}
			}
		}
	}
	return nil
}

func (eng *Engine) funcID(f *ssa.Function) int {
	if id, ok := eng.funcIDs[f]; ok {
		return id
	}
	id := len(eng.funcIDs) + 1
	eng.funcIDs[f] = id
	return id
}

func (eng *Engine) contractFor(f *ssa.Function) *Contract {
	if f == nil {
		return nil
	}
	if c, ok := eng.specs.Contracts[fnKey(f)]; ok {
		return c
	}
	// external: "ext:pkg.Func" or "ext:(*pkg.T).Method" / "ext:(pkg.T).Method"
	if f.Pkg != nil {
		k := "ext:" + f.Pkg.Pkg.Name() + "." + f.Name()
		if f.Signature.Recv() != nil {
			rt := types.TypeString(f.Signature.Recv().Type(), func(p *types.Package) string { return p.Name() })
			k = "ext:(" + rt + ")." + f.Name()
		}
		if c, ok := eng.specs.Contracts[k]; ok {
			return c
		}
	} else if f.Signature.Recv() != nil {
		rt := types.TypeString(f.Signature.Recv().Type(), func(p *types.Package) string { return p.Name() })
		if c, ok := eng.specs.Contracts["ext:("+rt+")."+f.Name()]; ok {
			return c
		}
	}
	return nil
}

var knownPure = map[string]bool{"strings": true, "unicode/utf8": true, "math": true, "strconv": true, "unicode": true, "errors": true, "sort": false, "fmt": true, "path/filepath": true, "regexp": true, "bytes": true}

func (eng *Engine) isKnownPureExternal(f *ssa.Function) bool {
	var path string
	if f.Pkg != nil {
		path = f.Pkg.Pkg.Path()
	} else if f.Signature.Recv() != nil {
		if n, ok := derefNamed(f.Signature.Recv().Type()); ok && n.Obj().Pkg() != nil {
			path = n.Obj().Pkg().Path()
		}
	}
	if strings.HasPrefix(path, "github.com/DemoHn/Zn") {
		return false
	}
	if path == "fmt" {
		switch f.Name() {
		case "Sprintf", "Sprint", "Errorf", "Sprintln":
			return true
		}
		return false
	}
	return knownPure[path]
}

func derefNamed(t types.Type) (*types.Named, bool) {
	if p, ok := t.(*types.Pointer); ok {
		t = p.Elem()
	}
	n, ok := t.(*types.Named)
	return n, ok
}

// ensureAllTags registers every named type of the module (and pointers to them) that implements some interface,
// so that interface-implementer sets are closed-world.
func (eng *Engine) ensureAllTags() {
	if eng.allTags {
		return
	}
	eng.allTags = true
	var names []string
	objs := map[string]types.Type{}
	for _, sp := range eng.prog.AllPackages() {
		if !strings.HasPrefix(sp.Pkg.Path(), "github.com/DemoHn/Zn") {
			continue
		}
		for _, m := range sp.Members {
			if t, ok := m.(*ssa.Type); ok {
				if _, isIface := t.Type().Underlying().(*types.Interface); isIface {
					continue
				}
				if n, ok := t.Type().(*types.Named); ok && n.TypeParams().Len() > 0 {
					continue
				}
				for _, ty := range []types.Type{t.Type(), types.NewPointer(t.Type())} {
					if eng.prog.MethodSets.MethodSet(ty).Len() > 0 {
						n := types.TypeString(ty, nil)
						names = append(names, n)
						objs[n] = ty
					}
				}
			}
		}
	}
	sort.Strings(names)
	for _, n := range names {
		eng.tags.tagOf(objs[n])
	}
}

// resolveClosureCall: a call through a local variable whose only stored value is one MakeClosure.
func (eng *Engine) resolveClosureCall(fn *ssa.Function, v ssa.Value) *ssa.Function {
	u, ok := v.(*ssa.UnOp)
	if !ok || u.Op != token.MUL {
		if mc, ok := v.(*ssa.MakeClosure); ok {
			return mc.Fn.(*ssa.Function)
		}
		return nil
	}
	a, ok := u.X.(*ssa.Alloc)
	if !ok {
		// free variable of a closure referring to itself (recursive closure idiom)
		if fv, ok := u.X.(*ssa.FreeVar); ok && fn.Parent() != nil {
			idx := -1
			for i, f := range fn.FreeVars {
				if f == fv {
					idx = i
				}
			}
			if idx >= 0 {
				// find the MakeClosure of fn in parent and its binding
				for _, b := range fn.Parent().Blocks {
					for _, ins := range b.Instrs {
						if mc, ok := ins.(*ssa.MakeClosure); ok && mc.Fn == fn {
							if pa, ok := mc.Bindings[idx].(*ssa.Alloc); ok {
								return eng.singleClosureStore(pa)
							}
						}
					}
				}
			}
		}
		return nil
	}
	return eng.singleClosureStore(a)
}

func (eng *Engine) singleClosureStore(a *ssa.Alloc) *ssa.Function {
	var found *ssa.Function
	n := 0
	for _, ref := range *a.Referrers() {
		if st, ok := ref.(*ssa.Store); ok && st.Addr == a {
			n++
			if mc, ok := st.Val.(*ssa.MakeClosure); ok {
				found = mc.Fn.(*ssa.Function)
			} else if f, ok := st.Val.(*ssa.Function); ok {
				found = f
			} else {
				return nil
			}
		}
	}
	if n == 1 {
		return found
	}
	return nil
}

// sameSCC: conservative — functions of the same package are considered possibly mutually recursive
// only if there is a static call path back (computed lazily via simple DFS).
func (eng *Engine) sameSCC(a, b *ssa.Function) bool {
	if a == b {
		return true
	}
	return eng.callsReach(b, a, map[*ssa.Function]bool{})
}

func (eng *Engine) callsReach(from, to *ssa.Function, seen map[*ssa.Function]bool) bool {
	if from == to {
		return true
	}
	if seen[from] || from.Blocks == nil {
		return false
	}
	seen[from] = true
	for _, b := range from.Blocks {
		for _, ins := range b.Instrs {
			switch x := ins.(type) {
			case ssa.CallInstruction:
				if c := x.Common().StaticCallee(); c != nil && eng.callsReach(c, to, seen) {
					return true
				}
			case *ssa.MakeClosure:
				if eng.callsReach(x.Fn.(*ssa.Function), to, seen) {
					return true
				}
			}
		}
	}
	return false
}

// heapIndependent: all parameters and the result are scalars/strings (so a pure function is a mathematical function of its arguments).
func (eng *Engine) heapIndependent(f *ssa.Function) bool {
	if v, ok := eng.heapInd[f]; ok {
		return v == 1
	}
	ok := true
	chk := func(t types.Type) {
		switch t.Underlying().(type) {
		case *types.Basic:
		default:
			ok = false
		}
	}
	sig := f.Signature
	if sig.Recv() != nil {
		chk(sig.Recv().Type())
	}
	for i := 0; i < sig.Params().Len(); i++ {
		chk(sig.Params().At(i).Type())
	}
	if sig.Results().Len() != 1 {
		ok = false
	} else {
		chk(sig.Results().At(0).Type())
	}
	if ok {
		eng.heapInd[f] = 1
	} else {
		eng.heapInd[f] = 2
	}
	return ok
}

// ---- immutable package-level tables ----

func (eng *Engine) computeImmutable() {
	if eng.immutDone {
		return
	}
	eng.immutDone = true
	written := map[*ssa.Global]bool{}
	for f := range ssautil.AllFunctions(eng.prog) {
		if f.Pkg == nil || !strings.HasPrefix(f.Pkg.Pkg.Path(), "github.com/DemoHn/Zn") {
			if f.Parent() == nil {
				continue
			}
		}
		isInit := f.Name() == "init" && f.Parent() == nil
		for _, b := range f.Blocks {
			for _, ins := range b.Instrs {
				for _, op := range ins.Operands(nil) {
					g, ok := (*op).(*ssa.Global)
					if !ok {
						continue
					}
					switch x := ins.(type) {
					case *ssa.UnOp:
						if x.Op == token.MUL {
							continue // load
						}
					case *ssa.Store:
						if x.Addr == g && isInit {
							continue
						}
					}
					// FieldAddr/IndexAddr on a global or any other use: treat as possibly written (unless in init)
					if !isInit {
						if _, isFA := ins.(*ssa.FieldAddr); isFA {
							written[g] = true
						} else if _, isIA := ins.(*ssa.IndexAddr); isIA {
							written[g] = true
						} else {
							written[g] = true
						}
					}
				}
			}
		}
	}
	for _, sp := range eng.prog.AllPackages() {
		if !strings.HasPrefix(sp.Pkg.Path(), "github.com/DemoHn/Zn") {
			continue
		}
		for _, m := range sp.Members {
			if g, ok := m.(*ssa.Global); ok && !written[g] {
				eng.immut[g] = true
			}
		}
	}
}

func (eng *Engine) immutableGlobalKey(k string) bool {
	if !strings.HasPrefix(k, "G$") {
		return false
	}
	eng.computeImmutable()
	name := strings.TrimPrefix(k, "G$")
	i := strings.Index(name, ".")
	if i < 0 {
		return false
	}
	sp := eng.spkgs[name[:i]]
	if sp == nil {
		return false
	}
	g, ok := sp.Members[name[i+1:]].(*ssa.Global)
	return ok && eng.immut[g]
}

// useImmutableGlobal: when a contract or the code reads an immutable table, give the solver the verified table facts.
func (eng *Engine) useImmutableGlobal(vc *FnVC, g *ssa.Global) {
	eng.computeImmutable()
	if !eng.immut[g] {
		return
	}
	key, _ := vc.globalKey(g)
	if vc.tablesUsed[key] {
		return
	}
	vc.tablesUsed[key] = true
	eng.emitTable(vc, g, key)
}

// findGlobalInit returns the AST initialiser of a package-level var.
func (eng *Engine) findGlobalInit(g *ssa.Global) (ast.Expr, *packages.Package) {
	pp := eng.ppkgs[g.Pkg.Pkg.Name()]
	if pp == nil {
		return nil, nil
	}
	for _, f := range pp.Syntax {
		for _, d := range f.Decls {
			gd, ok := d.(*ast.GenDecl)
			if !ok || gd.Tok != token.VAR {
				continue
			}
			for _, s := range gd.Specs {
				vs := s.(*ast.ValueSpec)
				for i, n := range vs.Names {
					if n.Name == g.Name() && i < len(vs.Values) {
						return vs.Values[i], pp
					}
				}
			}
		}
	}
	return nil, nil
}

// ---- refinement: functions used as values of a named func type, and methods implementing an interface ----

func (eng *Engine) computeRefinements() {
	if eng.refs != nil {
		return
	}
	eng.refs = map[*ssa.Function][]string{}
	add := func(f *ssa.Function, key string) {
		for _, k := range eng.refs[f] {
			if k == key {
				return
			}
		}
		eng.refs[f] = append(eng.refs[f], key)
	}
	for f := range ssautil.AllFunctions(eng.prog) {
		for _, b := range f.Blocks {
			for _, ins := range b.Instrs {
				ct, ok := ins.(*ssa.ChangeType)
				if !ok {
					continue
				}
				var g *ssa.Function
				switch x := ct.X.(type) {
				case *ssa.Function:
					g = x
				case *ssa.MakeClosure:
					g = x.Fn.(*ssa.Function)
				}
				if g == nil {
					continue
				}
				if n, ok := ct.Type().(*types.Named); ok {
					key := "functype:" + n.Obj().Pkg().Name() + "." + n.Obj().Name()
					if _, has := eng.specs.Contracts[key]; has {
						add(g, key)
					}
				}
			}
		}
	}
	// functype contracts declared for an alias (type F = func(...)): every function or closure of that signature
	// that is used as a value must refine it
	for key, con := range eng.specs.Contracts {
		if con.Kind != "functype" {
			continue
		}
		name := strings.TrimPrefix(key, "functype:")
		i := strings.Index(name, ".")
		if i < 0 {
			continue
		}
		p := eng.pkgByName(name[:i])
		if p == nil {
			continue
		}
		o := p.Scope().Lookup(name[i+1:])
		if o == nil {
			continue
		}
		if _, isNamed := o.Type().(*types.Named); isNamed {
			continue // named func types are handled through ChangeType above
		}
		sig, ok := o.Type().Underlying().(*types.Signature)
		if !ok {
			continue
		}
		for _, f := range eng.funcs {
			if f.Blocks == nil || f.Signature.Recv() != nil || !types.Identical(f.Signature, sig) {
				continue
			}
			usedAsValue := f.Parent() != nil
			if !usedAsValue && f.Referrers() != nil {
				for _, r := range *f.Referrers() {
					if c, ok := r.(ssa.CallInstruction); ok && c.Common().Value == ssa.Value(f) {
						continue
					}
					usedAsValue = true
				}
			}
			if usedAsValue || f.Parent() == nil {
				add(f, key)
			}
		}
	}
	// interface contracts
	for key, con := range eng.specs.Contracts {
		if con.Kind != "iface" {
			continue
		}
		// key = iface:pkg.I.m
		rest := strings.TrimPrefix(key, "iface:")
		i := strings.LastIndex(rest, ".")
		if i < 0 {
			continue
		}
		iname, mname := rest[:i], rest[i+1:]
		var it *types.Interface
		var ip *types.Package
		if iname == "error" {
			it = types.Universe.Lookup("error").Type().Underlying().(*types.Interface)
		} else {
			j := strings.Index(iname, ".")
			if j < 0 {
				continue
			}
			ip = eng.pkgByName(iname[:j])
			if ip == nil {
				continue
			}
			obj := ip.Scope().Lookup(iname[j+1:])
			if obj == nil {
				continue
			}
			var ok bool
			it, ok = obj.Type().Underlying().(*types.Interface)
			if !ok {
				continue
			}
		}
		for _, sp := range eng.prog.AllPackages() {
			if !strings.HasPrefix(sp.Pkg.Path(), "github.com/DemoHn/Zn") {
				continue
			}
			for _, m := range sp.Members {
				t, ok := m.(*ssa.Type)
				if !ok {
					continue
				}
				if n, ok := t.Type().(*types.Named); ok && n.TypeParams().Len() > 0 {
					continue
				}
				for _, ty := range []types.Type{t.Type(), types.NewPointer(t.Type())} {
					if _, isI := ty.Underlying().(*types.Interface); isI {
						continue
					}
					if !types.Implements(ty, it) {
						continue
					}
					sel := eng.prog.MethodSets.MethodSet(ty).Lookup(ip, mname)
					if sel == nil {
						sel = eng.prog.MethodSets.MethodSet(ty).Lookup(nil, mname)
					}
					if sel == nil {
						continue
					}
					mf := eng.prog.MethodValue(sel)
					if mf != nil && mf.Synthetic == "" {
						add(mf, key)
					}
				}
			}
		}
	}
}

func (eng *Engine) refinementsOf(f *ssa.Function) []string {
	eng.computeRefinements()
	ks := append([]string(nil), eng.refs[f]...)
	sort.Strings(ks)
	return ks
}

// buildAll returns the VCs of a function: against its own contract (or none: safety only) and against every
// functype / interface contract it must refine.
func (eng *Engine) buildAll(f *ssa.Function) []*FnVC {
	var out []*FnVC
	refs := eng.refinementsOf(f)
	if eng.specs.Contracts[fnKey(f)] != nil || len(refs) == 0 {
		out = append(out, eng.buildVC(f))
	}
	for _, k := range refs {
		short := k[strings.LastIndex(k, ":")+1:]
		con := *eng.specs.Contracts[k]
		if own := eng.specs.Contracts[fnKey(f)]; own != nil {
			// loop invariants are hints about the body, whichever contract it is checked against
			con.Invs, con.Decr, con.Steps, con.ExitSteps, con.Assumes = own.Invs, own.Decr, own.Steps, own.ExitSteps, own.Assumes
		}
		out = append(out, eng.buildVCWith(f, &con, fnKey(f)+"~as~"+short))
	}
	return out
}

// functypeBySig: functype contracts declared for an alias (type F = func(...)) are found by signature identity.
func (eng *Engine) functypeBySig(t types.Type) *Contract {
	sig, ok := t.Underlying().(*types.Signature)
	if !ok {
		return nil
	}
	for key, con := range eng.specs.Contracts {
		if con.Kind != "functype" {
			continue
		}
		name := strings.TrimPrefix(key, "functype:")
		i := strings.Index(name, ".")
		if i < 0 {
			continue
		}
		p := eng.pkgByName(name[:i])
		if p == nil {
			continue
		}
		o := p.Scope().Lookup(name[i+1:])
		if o == nil {
			continue
		}
		if s2, ok := o.Type().Underlying().(*types.Signature); ok && types.Identical(sig, s2) {
			return con
		}
	}
	return nil
}

// writesFieldsOf: fn stores to a field of struct type n, or updates/deletes in a map loaded from one of its fields.
func (eng *Engine) writesFieldsOf(fn *ssa.Function, n *types.Named) bool {
	key := fnKey(fn) + "|" + n.Obj().Name()
	if eng.writers == nil {
		eng.writers = map[string]bool{}
	}
	if v, ok := eng.writers[key]; ok {
		return v
	}
	isT := func(t types.Type) bool {
		if p, ok := t.Underlying().(*types.Pointer); ok {
			if nn, ok := p.Elem().(*types.Named); ok {
				return nn.Obj() == n.Obj()
			}
		}
		return false
	}
	fromField := func(v ssa.Value) bool {
		if u, ok := v.(*ssa.UnOp); ok && u.Op == token.MUL {
			if fa, ok := u.X.(*ssa.FieldAddr); ok && isT(fa.X.Type()) {
				return true
			}
		}
		return false
	}
	res := false
	for _, b := range fn.Blocks {
		for _, ins := range b.Instrs {
			switch x := ins.(type) {
			case *ssa.Store:
				if fa, ok := x.Addr.(*ssa.FieldAddr); ok && isT(fa.X.Type()) {
					res = true
				}
				if ia, ok := x.Addr.(*ssa.IndexAddr); ok && fromField(ia.X) {
					res = true
				}
			case *ssa.MapUpdate:
				if fromField(x.Map) {
					res = true
				}
			case *ssa.Call:
				if bi, ok := x.Call.Value.(*ssa.Builtin); ok && bi.Name() == "delete" && fromField(x.Call.Args[0]) {
					res = true
				}
			}
		}
	}
	eng.writers[key] = res
	return res
}

func (eng *Engine) embID(name string) int {
	if eng.embIDs == nil {
		eng.embIDs = map[string]int{}
	}
	if id, ok := eng.embIDs[name]; ok {
		return id
	}
	id := len(eng.embIDs) + 1
	eng.embIDs[name] = id
	return id
}

// immutableHeapKey: field arrays / backing stores of types declared `immutable` (the syntax tree) are not touched
// by havoc: the store-site inventory shows that nothing outside the parser writes them.
func (eng *Engine) immutableHeapKey(k string) bool {
	if len(eng.specs.Immutable) == 0 {
		return false
	}
	var name string
	switch {
	case strings.HasPrefix(k, "F$"):
		rest := k[2:]
		i := strings.LastIndex(rest, "$")
		if i < 0 {
			return false
		}
		name = rest[:i]
	case strings.HasPrefix(k, "Mem$"):
		name = strings.TrimPrefix(strings.TrimPrefix(k[4:], "P_"), "S_")
	default:
		return false
	}
	return eng.specs.Immutable[name]
}

// inventoryImmutable: every store to a field / element of an immutable type lies in the packages that build the tree.
func (eng *Engine) inventoryImmutable(allowedPkgs map[string]bool) []string {
	var bad []string
	isImm := func(t types.Type) bool {
		for {
			switch u := t.(type) {
			case *types.Pointer:
				t = u.Elem()
				continue
			case *types.Slice:
				t = u.Elem()
				continue
			case *types.Named:
				if u.Obj().Pkg() == nil {
					return false
				}
				return eng.specs.Immutable[u.Obj().Pkg().Name()+"."+u.Obj().Name()]
			}
			return false
		}
	}
	for _, f := range eng.funcs {
		root := f
		for root.Parent() != nil {
			root = root.Parent()
		}
		if root.Pkg == nil || allowedPkgs[root.Pkg.Pkg.Name()] {
			continue
		}
		for _, b := range f.Blocks {
			for _, ins := range b.Instrs {
				st, ok := ins.(*ssa.Store)
				if !ok {
					continue
				}
				switch a := st.Addr.(type) {
				case *ssa.FieldAddr:
					if isImm(a.X.Type()) {
						bad = append(bad, fmt.Sprintf("%s: store to field of %s at %s", fnKey(f), a.X.Type(), eng.fset.Position(st.Pos())))
					}
				case *ssa.IndexAddr:
					if sl, ok := a.X.Type().Underlying().(*types.Slice); ok && isImm(sl.Elem()) {
						bad = append(bad, fmt.Sprintf("%s: store to element of %s at %s", fnKey(f), a.X.Type(), eng.fset.Position(st.Pos())))
					}
				}
			}
		}
	}
	sort.Strings(bad)
	return bad
}

// frozenTypeOfKey: "F$pkg.T$f" -> "pkg.T" if T is declared frozen.
func (eng *Engine) frozenTypeOfKey(k string) string {
	if len(eng.specs.Frozen) == 0 || !strings.HasPrefix(k, "F$") {
		return ""
	}
	rest := k[2:]
	i := strings.LastIndex(rest, "$")
	if i < 0 {
		return ""
	}
	if eng.specs.Frozen[rest[:i]] {
		return rest[:i]
	}
	return ""
}

// allocatesType: fn contains a heap allocation of struct type named pkg.T
func (eng *Engine) allocatesType(fn *ssa.Function, name string) bool {
	for _, b := range fn.Blocks {
		for _, ins := range b.Instrs {
			if a, ok := ins.(*ssa.Alloc); ok {
				if n, ok := a.Type().(*types.Pointer).Elem().(*types.Named); ok && n.Obj().Pkg() != nil && n.Obj().Pkg().Name()+"."+n.Obj().Name() == name {
					return true
				}
			}
		}
	}
	return false
}

// inventoryFrozen: every store to a field of a frozen type targets an object allocated by the same function.
func (eng *Engine) inventoryFrozen() []string {
	var bad []string
	for _, f := range eng.funcs {
		for _, b := range f.Blocks {
			for _, ins := range b.Instrs {
				st, ok := ins.(*ssa.Store)
				if !ok {
					continue
				}
				fa, ok := st.Addr.(*ssa.FieldAddr)
				if !ok {
					continue
				}
				pt, ok := fa.X.Type().Underlying().(*types.Pointer)
				if !ok {
					continue
				}
				n, ok := pt.Elem().(*types.Named)
				if !ok || n.Obj().Pkg() == nil || !eng.specs.Frozen[n.Obj().Pkg().Name()+"."+n.Obj().Name()] {
					continue
				}
				if _, isAlloc := fa.X.(*ssa.Alloc); !isAlloc {
					bad = append(bad, fmt.Sprintf("%s: store to field of %s outside its allocation at %s", fnKey(f), n.Obj().Name(), eng.fset.Position(st.Pos())))
				}
			}
		}
	}
	sort.Strings(bad)
	return bad
}

// assignedBeforeAnyCall: closure f is stored into its variable in the entry block of the function that encloses both
// cur and f, before that function makes any call (so no closure can run while the variable is still nil).
func (eng *Engine) assignedBeforeAnyCall(cur, f *ssa.Function) bool {
	p := f.Parent()
	if p == nil || cur.Parent() != p || len(p.Blocks) == 0 {
		return false
	}
	for _, ins := range p.Blocks[0].Instrs {
		switch x := ins.(type) {
		case ssa.CallInstruction:
			if _, builtin := x.Common().Value.(*ssa.Builtin); builtin {
				continue // ssa:deferstack and friends run no user code
			}
			return false
		case *ssa.Store:
			if mc, ok := x.Val.(*ssa.MakeClosure); ok && mc.Fn == f {
				return true
			}
		}
	}
	return false
}
