#!/usr/bin/env python3
"""Regenerates the machine-derived tables of DESIGN.md (between the AUTO markers) from props/, ledger/,
known-findings.json, seeded/*/meta.json and /repo's git log. Hand-written text is never touched."""
import json, glob, os, re, subprocess

V = '/verif'


def sh(*a):
    return subprocess.run(a, capture_output=True, text=True).stdout


def claimed_table():
    out = ['| id | functions under contract | ledger obligations | known findings | claimed clauses (short) |', '|---|---|---|---|---|']
    known = json.load(open(f'{V}/known-findings.json'))
    for f in sorted(glob.glob(f'{V}/props/C*.json')):
        p = json.load(open(f))
        pid = p['id']
        lp = f'{V}/ledger/{pid}.json'
        if not os.path.exists(lp):
            continue
        led = json.load(open(lp))
        ob = led.get('obligations') or led.get('Obligations') or {}
        ver = led.get('verified') or led.get('Verified') or led.get('functions_fully_discharged') or {}
        nk = len([k for k in known['findings'] if k['property'] == pid])
        cl = ' · '.join((c[:110] + ('…' if len(c) > 110 else '')).replace('|', '/') for c in p.get('clauses_claimed', []))
        out.append(f"| {pid} | {len(ver)} | {len(ob)} | {nk} | {cl} |")
    return '\n'.join(out)


def fixes_table():
    log = sh('git', '-C', '/repo', 'log', '--format=%h %s').splitlines()
    out = ['| commit | repair |', '|---|---|']
    for l in reversed(log):
        h, s = l.split(' ', 1)
        if s.startswith('fix:'):
            out.append(f'| `{h}` | {s[4:].strip()} |')
    return '\n'.join(out)


def findings_table():
    known = json.load(open(f'{V}/known-findings.json'))
    seen = {}
    for k in known['findings']:
        seen.setdefault(k['obligation'], {'props': [], 'what': k['what'], 'wit': bool(k.get('witness'))})['props'].append(k['property'])
    out = ['| failing obligation (clause) | properties | what fails on the real code | witness program re-run by the check |', '|---|---|---|---|']
    for ob, v in seen.items():
        out.append(f"| `{ob}` | {', '.join(sorted(set(v['props'])))} | {v['what']} | {'yes' if v['wit'] else 'no (call site)'} |")
    return '\n'.join(out)


def seeded_table():
    out = ['| case | property | change (summary) | result | failing obligation(s) |', '|---|---|---|---|---|']
    for d in sorted(glob.glob(f'{V}/seeded/*/meta.json')):
        m = json.load(open(d))
        name = os.path.basename(os.path.dirname(d))
        summ = (m.get('summary') or '')
        summ = re.sub(r'\s+', ' ', summ)[:160]
        out.append(f"| {name} | {m.get('breaks_property') or m.get('property') or name[:3]} | {summ} | {m.get('detection','?')} | {(m.get('failing_obligations') or '')[:170]} |")
    return '\n'.join(out)


def na_table():
    man = json.load(open(f'{V}/MANIFEST.json'))
    out = ['| property | reason |', '|---|---|']
    for e in man.get('not_applicable', []):
        out.append(f"| {e['property_id']} | {e['reason']} |")
    return '\n'.join(out)


TABLES = {'CLAIMED': claimed_table, 'FIXES': fixes_table, 'FINDINGS': findings_table, 'SEEDED': seeded_table, 'NA': na_table}

src = open(f'{V}/DESIGN.md').read()
for name, fn in TABLES.items():
    b, e = f'<!-- AUTO:{name} -->', f'<!-- /AUTO:{name} -->'
    if b in src and e in src:
        i, j = src.index(b) + len(b), src.index(e)
        src = src[:i] + '\n' + fn() + '\n' + src[j:]
open(f'{V}/DESIGN.md', 'w').write(src)
print('DESIGN.md tables regenerated')
