package main

import (
	"flag"
	"fmt"
	"os"
	"regexp"
	"sort"
	"strings"
	"time"

	"golang.org/x/tools/go/ssa"
)

func main() {
	if len(os.Args) < 2 {
		fmt.Println("usage: znvc verify|check|inventory ...")
		os.Exit(2)
	}
	switch os.Args[1] {
	case "verify":
		cmdVerify(os.Args[2:])
	case "check":
		cmdCheck(os.Args[2:])
	default:
		fmt.Println("unknown command")
		os.Exit(2)
	}
}

func selectFuncs(eng *Engine, re *regexp.Regexp, onlyContracts bool) []*ssa.Function {
	var out []*ssa.Function
	for k, f := range eng.funcs {
		if re != nil && !re.MatchString(k) {
			continue
		}
		if onlyContracts {
			if _, ok := eng.specs.Contracts[k]; !ok {
				continue
			}
		}
		if f.Blocks == nil {
			continue
		}
		out = append(out, f)
	}
	sort.Slice(out, func(i, j int) bool { return fnKey(out[i]) < fnKey(out[j]) })
	return out
}

func cmdVerify(args []string) {
	fs := flag.NewFlagSet("verify", flag.ExitOnError)
	repo := fs.String("repo", "/repo", "repository root")
	fnRe := fs.String("fn", "", "regexp over function keys")
	all := fs.Bool("all", false, "also functions without a contract")
	timeout := fs.Int("timeout", 10000, "per-query timeout (ms)")
	dump := fs.String("dump", "", "directory to dump SMT scripts of failing obligations")
	par := fs.Int("j", 16, "parallel queries")
	verbose := fs.Bool("v", false, "print every obligation")
	fs.Parse(args)
	t0 := time.Now()
	eng, err := loadEngine(*repo)
	if err != nil {
		fmt.Println("LOAD ERROR:", err)
		os.Exit(2)
	}
	for _, e := range eng.specs.Errors {
		fmt.Println("SPEC ERROR:", e)
	}
	var re *regexp.Regexp
	if *fnRe != "" {
		re = regexp.MustCompile(*fnRe)
	}
	fns := selectFuncs(eng, re, !*all)
	fmt.Printf("loaded in %.1fs; %d functions selected; %d contracts\n", time.Since(t0).Seconds(), len(fns), len(eng.specs.Contracts))
	var obls []*Obligation
	var vcs []*FnVC
	for _, f := range fns {
		for _, vc := range eng.buildAll(f) {
			vcs = append(vcs, vc)
			obls = append(obls, vc.obls...)
		}
	}
	t1 := time.Now()
	dischargeAll(obls, *timeout, *par, false)
	fmt.Printf("%d obligations discharged in %.1fs\n", len(obls), time.Since(t1).Seconds())
	if *dump != "" {
		os.MkdirAll(*dump, 0o755)
	}
	bad := 0
	for _, vc := range vcs {
		nOK, nBad := 0, 0
		for _, o := range vc.obls {
			ok := o.Result == "unsat" && !o.Vacuity || o.Vacuity && (o.Result == "sat" || o.Result == "unknown-not-refuted")
			if ok {
				nOK++
			} else {
				nBad++
			}
		}
		status := "OK"
		if len(vc.unsup) > 0 {
			status = "UNSUPPORTED"
		} else if nBad > 0 {
			status = "FAIL"
		}
		fmt.Printf("%-11s %s  (%d ok, %d failed)\n", status, vc.key, nOK, nBad)
		for _, u := range vc.unsup {
			fmt.Println("     unsupported:", u)
		}
		for _, u := range vc.specErrs {
			fmt.Println("     spec error:", u)
		}
		for _, u := range vc.stale {
			fmt.Println("     stale:", u)
		}
		for _, o := range vc.obls {
			ok := o.Result == "unsat" && !o.Vacuity || o.Vacuity && (o.Result == "sat" || o.Result == "unknown-not-refuted")
			if !ok || *verbose {
				fmt.Printf("     %-8s %-8s %5dms %s  [%s]\n", o.Result, o.Solver, o.TimeMs, o.Name, o.Pos)
				if !ok {
					bad++
					if *dump != "" {
						fn := strings.NewReplacer("/", "_", "(", "", ")", "", "*", "", ":", "_", " ", "_").Replace(o.Name)
						os.WriteFile(*dump+"/"+fn+".smt2", []byte(vc.script(o, true)), 0o644)
						if o.Model != "" {
							os.WriteFile(*dump+"/"+fn+".model", []byte(o.Model), 0o644)
						}
					}
				}
			}
		}
		if *verbose {
			for _, n := range sortedKeys(vc.notes) {
				fmt.Println("     note:", n)
			}
		}
	}
	if bad > 0 {
		os.Exit(1)
	}
}

