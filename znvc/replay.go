package main

// Function-level replay of a solver model on the real code.
//
// Scope (stated in DESIGN.md II.2): free functions whose parameters are all integers, runes, bools, float64s or
// slices of integers/runes/bytes. The parameter values of the model are read back with (get-value), the real function
// is called with them in a test injected by `go test -overlay` (nothing is written into /repo), and
//   * a safety obligation (index, slice-bounds, nil-deref, div-zero, ...) is confirmed iff the real call panics;
//   * a postcondition is confirmed iff the real call returns exactly the results of the model's execution - the
//     model is an execution on which the postcondition is false, so agreement of the observable results means the
//     real code violates the clause on this input.
// Everything else (methods, heap-shaped parameters, strings, models of quantified queries) is not replayed: the
// VIOLATION line then ends with no-failing-input-found and the replay file carries the solver output.

import (
	"encoding/json"
	"fmt"
	"go/types"
	"math"
	"os"
	"os/exec"
	"path/filepath"
	"regexp"
	"strconv"
	"strings"
)

type replayParam struct {
	name string
	val  Val
}

func simpleScalar(t types.Type) bool {
	b, ok := t.Underlying().(*types.Basic)
	if !ok {
		return false
	}
	return b.Info()&types.IsInteger != 0 || b.Info()&types.IsBoolean != 0 || b.Kind() == types.Float64
}

func simpleParam(t types.Type) bool {
	if simpleScalar(t) {
		return true
	}
	if s, ok := t.Underlying().(*types.Slice); ok {
		b, ok := s.Elem().Underlying().(*types.Basic)
		return ok && b.Info()&types.IsInteger != 0
	}
	return false
}

var reGetValue = regexp.MustCompile(`\(\(([^()]+|\([^()]*\)|\((?:[^()]|\([^()]*\))*\))\s+(.+)\)\)?$`)

// getValues asks the solver for the values of terms in a model of the obligation's query.
func getValues(o *Obligation, terms []string) (map[string]string, string) {
	if len(terms) == 0 {
		return map[string]string{}, ""
	}
	script := o.vc.script(o, false)
	for _, t := range terms {
		script += "(get-value (" + t + "))\n"
	}
	dir, err := os.MkdirTemp("", "znvcgv")
	if err != nil {
		return nil, err.Error()
	}
	defer os.RemoveAll(dir)
	var r solveResult
	for _, s := range solvers {
		if s.name != o.Solver && o.Solver != "" {
			continue
		}
		r = runSolver(s, script, 30000, dir, "gv")
		break
	}
	if r.status != "sat" {
		return nil, "solver did not reproduce the model: " + r.status
	}
	lines := strings.Split(r.output, "\n")
	out := map[string]string{}
	// answers come in order, one s-expression per (get-value), possibly spanning lines: join and split by balance
	text := strings.Join(lines[1:], " ")
	var exprs []string
	depth, start := 0, -1
	for i, c := range text {
		switch c {
		case '(':
			if depth == 0 {
				start = i
			}
			depth++
		case ')':
			depth--
			if depth == 0 && start >= 0 {
				exprs = append(exprs, text[start:i+1])
				start = -1
			}
		}
	}
	if len(exprs) < len(terms) {
		return nil, "could not parse get-value output"
	}
	for i, t := range terms {
		e := strings.TrimSpace(exprs[i])
		e = strings.TrimPrefix(e, "((")
		e = strings.TrimSuffix(e, "))")
		// e = "<term> <value>": the value is what follows the echoed term
		tt := strings.Join(strings.Fields(t), " ")
		ee := strings.Join(strings.Fields(e), " ")
		if strings.HasPrefix(ee, tt) {
			out[t] = strings.TrimSpace(ee[len(tt):])
		} else if j := strings.LastIndex(ee, " "); j >= 0 {
			out[t] = ee[j+1:]
		}
	}
	return out, ""
}

func smtInt(s string) (int64, bool) {
	s = strings.TrimSpace(s)
	neg := false
	if strings.HasPrefix(s, "(-") {
		neg = true
		s = strings.TrimSuffix(strings.TrimSpace(s[2:]), ")")
	}
	n, err := strconv.ParseInt(strings.TrimSpace(s), 10, 64)
	if err != nil {
		return 0, false
	}
	if neg {
		n = -n
	}
	return n, true
}

// smtFloatBits parses (fp #b. #b........... #b....) / (_ +zero 11 53) etc. into IEEE bits.
func smtFloatBits(s string) (uint64, bool) {
	s = strings.TrimSpace(s)
	switch {
	case strings.Contains(s, "+zero"):
		return 0, true
	case strings.Contains(s, "-zero"):
		return 1 << 63, true
	case strings.Contains(s, "+oo"):
		return math.Float64bits(math.Inf(1)), true
	case strings.Contains(s, "-oo"):
		return math.Float64bits(math.Inf(-1)), true
	case strings.Contains(s, "NaN"):
		return math.Float64bits(math.NaN()), true
	}
	f := strings.Fields(strings.Trim(s, "()"))
	if len(f) != 4 || f[0] != "fp" {
		return 0, false
	}
	var bits string
	for _, p := range f[1:] {
		switch {
		case strings.HasPrefix(p, "#b"):
			bits += p[2:]
		case strings.HasPrefix(p, "#x"):
			for _, h := range p[2:] {
				v, _ := strconv.ParseUint(string(h), 16, 8)
				bits += fmt.Sprintf("%04b", v)
			}
		}
	}
	if len(bits) != 64 {
		return 0, false
	}
	v, err := strconv.ParseUint(bits, 2, 64)
	return v, err == nil
}

func goLiteral(t types.Type, smt string) (string, bool) {
	b := t.Underlying().(*types.Basic)
	tn := types.TypeString(t, func(p *types.Package) string { return "" })
	switch {
	case b.Info()&types.IsBoolean != 0:
		return smt, smt == "true" || smt == "false"
	case b.Kind() == types.Float64:
		bits, ok := smtFloatBits(smt)
		return fmt.Sprintf("math.Float64frombits(0x%x)", bits), ok
	default:
		n, ok := smtInt(smt)
		return fmt.Sprintf("%s(%d)", tn, n), ok
	}
}

var safetyKinds = map[string]bool{"index": true, "slice-bounds": true, "nil-deref": true, "type-assert": true, "div-zero": true, "nil-map": true, "makeslice": true, "explicit-panic": true, "conv-range": false}

// replay tries to confirm a failed obligation on the real code.
func (eng *Engine) replay(o *Obligation) (status string, text string) {
	if o.Evaluated {
		return "confirmed", "decided by direct evaluation of the current source (inventory / literal table); the listing above is the evidence"
	}
	if o.Result != "sat" {
		return "not attempted", "the solvers gave no model for this obligation (" + o.Result + "): quantified or non-linear query"
	}
	vc := o.vc
	fn := vc.fn
	if fn == nil || fn.Signature.Recv() != nil || len(fn.FreeVars) > 0 || fn.Pkg == nil {
		return "not attempted", "function-level replay covers free functions with scalar / integer-slice parameters only"
	}
	var terms []string
	type pinfo struct {
		name string
		t    types.Type
		term string
	}
	var ps []pinfo
	for _, p := range fn.Params {
		if !simpleParam(p.Type()) {
			return "not attempted", fmt.Sprintf("parameter %s has type %s: function-level replay covers scalar / integer-slice parameters only", p.Name(), p.Type())
		}
		v, ok := vc.paramVals[p.Name()]
		if !ok {
			return "not attempted", "parameter term not found"
		}
		ps = append(ps, pinfo{p.Name(), p.Type(), v.S})
		if _, isSlice := p.Type().Underlying().(*types.Slice); isSlice {
			terms = append(terms, sx("sl.len", v.S))
		} else {
			terms = append(terms, v.S)
		}
	}
	res := fn.Signature.Results()
	for i := 0; i < res.Len(); i++ {
		if !simpleScalar(res.At(i).Type()) && o.Kind == "post" {
			return "not attempted", "result type " + res.At(i).Type().String() + " is not a scalar"
		}
	}
	if o.Kind == "post" {
		terms = append(terms, o.ResultTerms...)
	}
	vals, errs := getValues(o, terms)
	if errs != "" {
		return "not attempted", errs
	}
	// second round: slice elements
	var args []string
	var desc []string
	for _, p := range ps {
		if st, isSlice := p.t.Underlying().(*types.Slice); isSlice {
			n, ok := smtInt(vals[sx("sl.len", p.term)])
			if !ok || n < 0 || n > 256 {
				return "not attempted", fmt.Sprintf("model slice %s has length %v: skipped", p.name, vals[sx("sl.len", p.term)])
			}
			key, _ := vc.memKey(st.Elem())
			mem := vc.curIn(vc.entry, key)
			var ets []string
			for i := int64(0); i < n; i++ {
				ets = append(ets, sSelect(sSelect(mem, sx("sl.base", p.term)), sx("sl.ix", sx("sl.off", p.term), fmt.Sprint(i))))
			}
			ev, errs := getValues(o, ets)
			if errs != "" {
				return "not attempted", errs
			}
			tn := types.TypeString(p.t, func(*types.Package) string { return "" })
			var lits []string
			for _, et := range ets {
				v, ok := smtInt(ev[et])
				if !ok {
					return "not attempted", "could not read slice element from the model"
				}
				lits = append(lits, fmt.Sprint(v))
			}
			args = append(args, tn+"{"+strings.Join(lits, ", ")+"}")
			desc = append(desc, p.name+" = "+tn+"{"+strings.Join(lits, ", ")+"}")
			continue
		}
		lit, ok := goLiteral(p.t, vals[p.term])
		if !ok {
			return "not attempted", "could not read parameter " + p.name + " from the model: " + vals[p.term]
		}
		args = append(args, lit)
		desc = append(desc, p.name+" = "+lit)
	}
	var modelRes []string
	if o.Kind == "post" {
		for i, rt := range o.ResultTerms {
			lit, ok := goLiteral(res.At(i).Type(), vals[rt])
			if !ok {
				return "not attempted", "could not read the model's result"
			}
			modelRes = append(modelRes, lit)
		}
	}
	// generate and run the test
	pkgPath := fn.Pkg.Pkg.Path()
	rel := strings.TrimPrefix(pkgPath, eng.modPath)
	rel = strings.TrimPrefix(rel, "/")
	dir, err := os.MkdirTemp("", "znvcreplay")
	if err != nil {
		return "not attempted", err.Error()
	}
	defer os.RemoveAll(dir)
	var rs, prs []string
	for i := 0; i < res.Len(); i++ {
		rs = append(rs, fmt.Sprintf("r%d", i))
		if b, ok := res.At(i).Type().Underlying().(*types.Basic); ok && b.Kind() == types.Float64 {
			prs = append(prs, fmt.Sprintf("fmt.Sprintf(\"math.Float64frombits(0x%%x)\", math.Float64bits(r%d))", i))
		} else {
			tn := types.TypeString(res.At(i).Type(), func(*types.Package) string { return "" })
			if b, ok := res.At(i).Type().Underlying().(*types.Basic); ok && b.Info()&types.IsBoolean != 0 {
				prs = append(prs, fmt.Sprintf("fmt.Sprint(r%d)", i))
			} else {
				prs = append(prs, fmt.Sprintf("fmt.Sprintf(\"%s(%%d)\", r%d)", tn, i))
			}
		}
	}
	call := fn.Name() + "(" + strings.Join(args, ", ") + ")"
	body := call
	if len(rs) > 0 {
		body = strings.Join(rs, ", ") + " := " + call + "\n\tfmt.Println(\"ZNVC-RESULT\", " + strings.Join(prs, ", \"|\", ") + ")"
	} else {
		body += "\n\tfmt.Println(\"ZNVC-RESULT\")"
	}
	src := fmt.Sprintf(`package %s

import (
	"fmt"
	"math"
	"testing"
)

var _ = math.Pi

// generated by znvc: replays the solver's counterexample for %s on the real function
func TestZnvcReplay(t *testing.T) {
	defer func() {
		if r := recover(); r != nil {
			fmt.Println("ZNVC-PANIC", r)
		}
	}()
	%s
}
`, fn.Pkg.Pkg.Name(), o.Name, body)
	testPath := filepath.Join(dir, "zz_znvc_replay_test.go")
	os.WriteFile(testPath, []byte(src), 0o644)
	ov, _ := json.Marshal(map[string]map[string]string{"Replace": {filepath.Join(eng.repo, rel, "zz_znvc_replay_test.go"): testPath}})
	os.WriteFile(filepath.Join(dir, "ov.json"), ov, 0o644)
	cmd := exec.Command("go", "test", "-overlay", filepath.Join(dir, "ov.json"), "-vet=off", "-count=1", "-timeout", "60s", "-v", "-run", "^TestZnvcReplay$", "./"+rel)
	cmd.Dir = eng.repo
	cmd.Env = append(os.Environ(), "GOFLAGS=-mod=mod", "GOPROXY=off", "GOSUMDB=off", "GOTOOLCHAIN=local")
	out, _ := cmd.CombinedOutput()
	var observed string
	for _, ln := range strings.Split(string(out), "\n") {
		if strings.HasPrefix(ln, "ZNVC-PANIC") || strings.HasPrefix(ln, "ZNVC-RESULT") {
			observed = ln
		}
	}
	report := "input from the solver's model: " + strings.Join(desc, ", ") + "\nreal call: " + call + "\nobserved: " + observed + "\n\n--- generated test ---\n" + src
	if observed == "" {
		return "not attempted", "the replay test did not run:\n" + firstLines(string(out), 12) + "\n" + report
	}
	if safetyKinds[o.Kind] {
		if strings.HasPrefix(observed, "ZNVC-PANIC") {
			return "confirmed", "the real function panics on the model's input\n" + report
		}
		return "not confirmed", "the real function does not panic on the model's input (spurious model or unmodelled guard)\n" + report
	}
	if o.Kind == "post" {
		want := "ZNVC-RESULT " + strings.Join(modelRes, " | ")
		if observed == want {
			return "confirmed", "the real function returns exactly what the model's execution returns, and the clause is false on that execution\n" + report
		}
		return "not confirmed", "the real function returned something else than the model's execution (" + want + ")\n" + report
	}
	return "not attempted", "obligation kind " + o.Kind + " has no function-level oracle\n" + report
}
