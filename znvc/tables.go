package main

// Immutable package-level tables: literal contents extracted from the current tree and given to the solver;
// `table <global> <kind>` facts (e.g. sortedness of 441 rows) are decided by direct evaluation of the literal.

import (
	"fmt"
	"go/ast"
	"go/constant"
	"go/token"
	"go/types"
	"strings"

	"golang.org/x/tools/go/ssa"
)

type tableData struct {
	kind   string // "ints", "pairs", "strings", "map"
	ints   []int64
	rows   [][]int64
	strs   []string
	mkeys  []constant.Value
	mvals  []constant.Value
	elemT  types.Type
}

func (eng *Engine) tableLiteral(g *ssa.Global) *tableData {
	init, pp := eng.findGlobalInit(g)
	if init == nil {
		return nil
	}
	cl, ok := init.(*ast.CompositeLit)
	if !ok {
		return nil
	}
	info := pp.TypesInfo
	cv := func(e ast.Expr) constant.Value {
		if tv, ok := info.Types[e]; ok && tv.Value != nil {
			return tv.Value
		}
		return nil
	}
	t := g.Type().(*types.Pointer).Elem()
	td := &tableData{}
	switch u := t.Underlying().(type) {
	case *types.Slice, *types.Array:
		var et types.Type
		if s, ok := u.(*types.Slice); ok {
			et = s.Elem()
		} else {
			et = u.(*types.Array).Elem()
		}
		td.elemT = et
		for _, el := range cl.Elts {
			if _, isKV := el.(*ast.KeyValueExpr); isKV {
				return nil
			}
			switch eu := et.Underlying().(type) {
			case *types.Basic:
				v := cv(el)
				if v == nil {
					return nil
				}
				if eu.Info()&types.IsString != 0 {
					td.kind = "strings"
					td.strs = append(td.strs, constant.StringVal(v))
				} else if eu.Info()&types.IsInteger != 0 {
					td.kind = "ints"
					n, ok := constant.Int64Val(v)
					if !ok {
						return nil
					}
					td.ints = append(td.ints, n)
				} else {
					return nil
				}
			case *types.Array:
				td.kind = "pairs"
				icl, ok := el.(*ast.CompositeLit)
				if !ok {
					return nil
				}
				var row []int64
				for _, ie := range icl.Elts {
					v := cv(ie)
					if v == nil {
						return nil
					}
					n, ok := constant.Int64Val(v)
					if !ok {
						return nil
					}
					row = append(row, n)
				}
				for int64(len(row)) < eu.Len() {
					row = append(row, 0)
				}
				td.rows = append(td.rows, row)
			default:
				return nil
			}
		}
		if td.kind == "" {
			td.kind = "ints"
			if isString(et) {
				td.kind = "strings"
			}
		}
		return td
	case *types.Map:
		td.kind = "map"
		for _, el := range cl.Elts {
			kv, ok := el.(*ast.KeyValueExpr)
			if !ok {
				return nil
			}
			k, v := cv(kv.Key), cv(kv.Value)
			if k == nil || v == nil {
				return nil
			}
			td.mkeys = append(td.mkeys, k)
			td.mvals = append(td.mvals, v)
		}
		return td
	}
	return nil
}

// deepImmutable: no instruction in the module can write through a value loaded from g.
func (eng *Engine) deepImmutable(g *ssa.Global) bool {
	eng.computeImmutable()
	if !eng.immut[g] {
		return false
	}
	ok := true
	var visit func(v ssa.Value, depth int)
	seen := map[ssa.Value]bool{}
	visit = func(v ssa.Value, depth int) {
		if seen[v] || !ok {
			return
		}
		seen[v] = true
		refs := v.Referrers()
		if refs == nil {
			return
		}
		for _, r := range *refs {
			switch x := r.(type) {
			case *ssa.DebugRef, *ssa.Return:
				if _, isRet := x.(*ssa.Return); isRet {
					ok = false
				}
			case *ssa.UnOp:
				if x.Op == token.MUL {
					visit(x, depth+1)
				}
			case *ssa.IndexAddr:
				if x.X == v {
					visit(x, depth+1)
				}
			case *ssa.FieldAddr:
				visit(x, depth+1)
			case *ssa.Index, *ssa.Field, *ssa.Lookup, *ssa.Range, *ssa.Next, *ssa.Extract, *ssa.BinOp, *ssa.If:
				if val, isVal := r.(ssa.Value); isVal {
					switch r.(type) {
					case *ssa.Range, *ssa.Next, *ssa.Extract:
						visit(val, depth+1)
					}
				}
			case *ssa.Store:
				if x.Addr == v {
					ok = false // write through the table
				}
				// storing a loaded scalar/copy elsewhere: only a problem if the stored value is a reference into the table
				if x.Val == v {
					switch v.Type().Underlying().(type) {
					case *types.Slice, *types.Map, *types.Pointer:
						// allow storing into a non-escaping local cell
						if a, isA := x.Addr.(*ssa.Alloc); isA && !a.Heap {
							visit(a, depth+1)
						} else {
							ok = false
						}
					}
				}
			case *ssa.Call:
				c := x.Common()
				if b, isB := c.Value.(*ssa.Builtin); isB && (b.Name() == "len" || b.Name() == "cap") {
					continue
				}
				switch v.Type().Underlying().(type) {
				case *types.Slice, *types.Map, *types.Pointer:
					callee := c.StaticCallee()
					con := eng.contractFor(callee)
					if con == nil || !con.Pure {
						ok = false
					}
				}
			case *ssa.Slice:
				visit(x, depth+1)
			case *ssa.MapUpdate:
				if x.Map == v {
					ok = false
				}
			case *ssa.Phi, *ssa.MakeInterface, *ssa.ChangeType, *ssa.Convert:
				switch v.Type().Underlying().(type) {
				case *types.Slice, *types.Map, *types.Pointer:
					ok = false
				}
			default:
				switch v.Type().Underlying().(type) {
				case *types.Slice, *types.Map, *types.Pointer:
					ok = false
				}
			}
		}
	}
	visit(g, 0)
	return ok
}

// emitTable gives the literal contents of g to the solver (as hoisted axioms).
func (eng *Engine) emitTable(vc *FnVC, g *ssa.Global, key string) {
	if !eng.deepImmutable(g) {
		vc.note("global " + g.Name() + " is not deeply immutable: contents not given to the solver")
		return
	}
	td := eng.tableLiteral(g)
	if td == nil {
		vc.note("global " + g.Name() + ": initialiser is not a constant table")
		return
	}
	gname := sanitizeKey(key) + "@e0"
	vc.declare(gname, vc.keySort[key])
	t := g.Type().(*types.Pointer).Elem()
	ax := func(s string) { vc.axioms = append(vc.axioms, "(assert "+s+")") }
	switch u := t.Underlying().(type) {
	case *types.Slice:
		n := len(td.ints) + len(td.rows) + len(td.strs)
		mkey, es := vc.memKey(u.Elem())
		arr := "tbl$" + sanitize(g.Pkg.Pkg.Name()+"."+g.Name())
		vc.declare(arr, "(Array Int "+es+")")
		base := "tblbase$" + sanitize(g.Pkg.Pkg.Name()+"."+g.Name())
		vc.declare(base, SInt)
		ax(sEq(gname, sx("mk-slice", base, "0", fmt.Sprint(n), fmt.Sprint(n))))
		ax(sAnd(sx("<", "0", base), sx("<=", base, sanitizeKey("$alloc")+"@e0")))
		vc.registerKey("$alloc", SInt)
		vc.declare(sanitizeKey("$alloc")+"@e0", SInt)
		if !eng.hasTableFacts(g) {
			eng.tableContents(vc, td, arr, u.Elem(), ax)
		}
		vc.pinMem(mkey, base, arr)
		vc.tableInfo[key] = &tableInfo{arr: arr, n: n, td: td, g: g}
		eng.tableFactsFor(vc, g, td, arr, n)
	case *types.Array:
		if !eng.hasTableFacts(g) {
			eng.tableContents(vc, td, gname, u.Elem(), ax)
		}
		vc.tableInfo[key] = &tableInfo{arr: gname, n: int(u.Len()), td: td, g: g}
		eng.tableFactsFor(vc, g, td, gname, int(u.Len()))
	case *types.Map:
		dom, val, ln, ks, vs := vc.mapKeys(u)
		base := "tblbase$" + sanitize(g.Pkg.Pkg.Name()+"."+g.Name())
		vc.declare(base, SInt)
		ax(sEq(gname, base))
		vc.registerKey("$alloc", SInt)
		vc.declare(sanitizeKey("$alloc")+"@e0", SInt)
		ax(sAnd(sx("<", "0", base), sx("<=", base, sanitizeKey("$alloc")+"@e0")))
		darr := "tbldom$" + sanitize(g.Pkg.Pkg.Name()+"."+g.Name())
		varr := "tblval$" + sanitize(g.Pkg.Pkg.Name()+"."+g.Name())
		vc.declare(darr, "(Array "+ks+" Bool)")
		vc.declare(varr, "(Array "+ks+" "+vs+")")
		d := "((as const (Array " + ks + " Bool)) false)"
		for i, k := range td.mkeys {
			kt := constToVal(vc, k, u.Key()).S
			vt := constToVal(vc, td.mvals[i], u.Elem()).S
			d = sStore(d, kt, "true")
			ax(sEq(sSelect(varr, kt), vt))
		}
		ax(sEq(darr, d))
		vc.pinMem(dom, base, darr)
		vc.pinMem(val, base, varr)
		lenArr := "tbllen$" + sanitize(g.Pkg.Pkg.Name()+"."+g.Name())
		vc.declare(lenArr, SInt)
		ax(sEq(lenArr, fmt.Sprint(len(td.mkeys))))
		vc.pinMem(ln, base, lenArr)
	}
}

func (eng *Engine) tableContents(vc *FnVC, td *tableData, arr string, et types.Type, ax func(string)) {
	switch td.kind {
	case "ints":
		for i, v := range td.ints {
			ax(sEq(sSelect(arr, fmt.Sprint(i)), sInt(v)))
		}
	case "strings":
		for i, v := range td.strs {
			ax(sEq(sSelect(arr, fmt.Sprint(i)), vc.sorts.lit(v)))
		}
	case "pairs":
		for i, row := range td.rows {
			for j, v := range row {
				ax(sEq(sSelect(sSelect(arr, fmt.Sprint(i)), fmt.Sprint(j)), sInt(v)))
			}
		}
	}
}

type tableInfo struct {
	arr string
	n   int
	td  *tableData
	g   *ssa.Global
}

// pinMem: every incarnation of heap key `key` maps `base` to the constant `arr` (the table is never written).
func (vc *FnVC) pinMem(key, base, arr string) {
	vc.pins[key] = append(vc.pins[key], [2]string{base, arr})
	sort := vc.keySort[key]
	for _, name := range vc.declBySort[sort] {
		if !(strings.HasPrefix(name, sanitizeKey(key)+"@") || strings.HasPrefix(name, sanitizeKey(key)+"!")) {
			continue
		}
		vc.axioms = append(vc.axioms, "(assert "+sEq(sSelect(name, base), arr)+")")
	}
}

// evalTableFact decides a `table <global> <kind>` directive by direct evaluation of the literal (exact, finite).
// Returns the quantified fact to assume (template over the table array term) and whether it holds.
func evalTableFact(td *tableData, kind string) (holds bool, why string) {
	switch kind {
	case "sorted-pairs":
		if td.kind != "pairs" {
			return false, "not a table of pairs"
		}
		for i, r := range td.rows {
			if len(r) != 2 || r[0] > r[1] {
				return false, fmt.Sprintf("row %d: lo > hi", i)
			}
			if i > 0 && td.rows[i-1][1] >= r[0] {
				return false, fmt.Sprintf("row %d not above row %d", i, i-1)
			}
		}
		return true, ""
	case "sorted-ints":
		for i := 1; i < len(td.ints); i++ {
			if td.ints[i-1] >= td.ints[i] {
				return false, fmt.Sprintf("entry %d not above entry %d", i, i-1)
			}
		}
		return true, ""
	}
	return false, "unknown table fact " + kind
}

func tableFactSMT(kind, arr string, n int) string {
	switch kind {
	case "sorted-pairs":
		return fmt.Sprintf("(and (forall ((j Int)) (! (=> (and (<= 0 j) (< j %d)) (<= (select (select %s j) 0) (select (select %s j) 1))) :pattern ((select %s j)))) (forall ((j Int) (k Int)) (! (=> (and (<= 0 j) (< j k) (< k %d)) (< (select (select %s j) 1) (select (select %s k) 0))) :pattern ((select %s j) (select %s k)))))",
			n, arr, arr, arr, n, arr, arr, arr, arr)
	case "sorted-ints":
		return fmt.Sprintf("(forall ((j Int) (k Int)) (! (=> (and (<= 0 j) (< j k) (< k %d)) (< (select %s j) (select %s k))) :pattern ((select %s j) (select %s k))))", n, arr, arr, arr, arr)
	}
	return "true"
}

var _ = strings.Join

// tableFactsFor: `table <global> <kind>` directives are decided by evaluating the literal of the current tree.
func (eng *Engine) tableFactsFor(vc *FnVC, g *ssa.Global, td *tableData, arr string, n int) {
	for _, tf := range eng.specs.Tables {
		if tf.Pkg != g.Pkg.Pkg.Name() || tf.Global != g.Name() {
			continue
		}
		holds, why := evalTableFact(td, tf.Kind)
		name := fmt.Sprintf("%s/table-check:%s.%s:%s#1", vc.key, tf.Pkg, tf.Global, tf.Kind)
		o := &Obligation{Name: name, Kind: "table-check", Desc: tf.Global + " " + tf.Kind, Fn: vc.key, vc: vc, Solver: "eval", Evaluated: true}
		if holds {
			o.Result = "unsat"
			vc.axioms = append(vc.axioms, "(assert "+tableFactSMT(tf.Kind, arr, n)+")")
			// boundary rows (ground facts): first and last entry of the literal
			if n > 0 {
				switch td.kind {
				case "pairs":
					for _, i := range []int{0, n - 1} {
						for j, v := range td.rows[i] {
							vc.axioms = append(vc.axioms, "(assert "+sEq(sSelect(sSelect(arr, fmt.Sprint(i)), fmt.Sprint(j)), sInt(v))+")")
						}
					}
				case "ints":
					for _, i := range []int{0, n - 1} {
						vc.axioms = append(vc.axioms, "(assert "+sEq(sSelect(arr, fmt.Sprint(i)), sInt(td.ints[i]))+")")
					}
				}
			}
		} else {
			o.Result = "sat"
			o.Model = "table fact " + tf.Kind + " does not hold for " + tf.Global + ": " + why
		}
		vc.obls = append(vc.obls, o)
	}
}

// hasTableFacts: when abstract facts about a table are declared, the solver gets those (decided by evaluation)
// instead of the literal rows (hundreds of ground rows under a two-variable pattern do not scale).
func (eng *Engine) hasTableFacts(g *ssa.Global) bool {
	for _, tf := range eng.specs.Tables {
		if tf.Pkg == g.Pkg.Pkg.Name() && tf.Global == g.Name() {
			return true
		}
	}
	return false
}
