#!/bin/bash
# regenerates every ledger on the unchanged tree, then re-runs every check and reports any that is not clean
cd /verif
for f in props/C*.json; do p=$(basename $f .json); ./check $p --update-ledger > /tmp/refresh_$p.log 2>&1; tail -1 /tmp/refresh_$p.log; done
echo "--- verification pass"
for f in props/C*.json; do p=$(basename $f .json); ./check $p > /tmp/verify_$p.log 2>&1; rc=$?; echo "$p exit=$rc $(grep -c '^UNDECIDED' /tmp/verify_$p.log) undecided $(grep -c '^VIOLATION' /tmp/verify_$p.log) violations"; done
