package main

import (
	"fmt"
	"go/types"
	"sort"
	"strings"

	"golang.org/x/tools/go/ssa"
)

// fnKey returns the contract key of a function: "<pkgname>.<RelString>".
func fnKey(f *ssa.Function) string {
	if f == nil {
		return ""
	}
	if f.Pkg == nil {
		// instantiated generic / wrapper / closure of those
		if f.Parent() != nil {
			return fnKey(f.Parent()) + "$" + strings.TrimPrefix(f.Name(), f.Parent().Name()+"$")
		}
		if o := f.Origin(); o != nil {
			return fnKey(o)
		}
		return f.String()
	}
	rel := f.RelString(f.Pkg.Pkg)
	return f.Pkg.Pkg.Name() + "." + rel
}

func witnessName(c *ssa.CallCommon) string {
	if c.IsInvoke() {
		n := types.TypeString(c.Value.Type(), func(p *types.Package) string { return "" })
		return sanitize(n) + "_" + c.Method.Name()
	}
	if f := c.StaticCallee(); f != nil {
		if f.Signature.Recv() != nil {
			rt := f.Signature.Recv().Type()
			if p, ok := rt.(*types.Pointer); ok {
				rt = p.Elem()
			}
			if n, ok := rt.(*types.Named); ok {
				return n.Obj().Name() + "_" + f.Name()
			}
		}
		return strings.ReplaceAll(f.Name(), "$", "$")
	}
	if b, ok := c.Value.(*ssa.Builtin); ok {
		return b.Name()
	}
	return "dyn"
}

func (vc *FnVC) doCall(x ssa.Value, c *ssa.CallCommon) {
	if b, ok := c.Value.(*ssa.Builtin); ok {
		vc.doBuiltin(x, b, c)
		return
	}
	wname := witnessName(c)
	ord, ok := vc.callOrd[c]
	if !ok {
		vc.callOcc[wname]++
		ord = 1000 + vc.callOcc[wname]
	}
	wit := fmt.Sprintf("%s#%d", wname, ord)

	var args []Val
	var con *Contract
	var sig *types.Signature
	var paramNames []string
	var callee *ssa.Function
	var closureFn *ssa.Function
	desc := ""
	switch {
	case c.IsInvoke():
		recv := vc.val(c.Value)
		vc.assert("nil-deref", "invoke "+vc.exprText(c.Value)+"."+c.Method.Name(), sNot(sEq(sx("if.tag", recv.S), "0")))
		if isRegimeIface(c.Value.Type()) {
			vc.assert("nil-deref", "receiver of "+c.Method.Name(), sNot(sEq(sx("if.ptr", recv.S), "0")))
		} else {
			vc.note("receivers of non-Element interface calls are assumed non-nil pointers: " + c.Method.Name())
		}
		args = append(args, recv)
		for _, a := range c.Args {
			args = append(args, vc.val(a))
		}
		sig = c.Method.Type().(*types.Signature)
		it := c.Value.Type()
		iname := types.TypeString(it, func(p *types.Package) string { return p.Name() })
		con = vc.eng.specs.Contracts["iface:"+iname+"."+c.Method.Name()]
		desc = iname + "." + c.Method.Name()
		paramNames = append(paramNames, "self")
		for i := 0; i < sig.Params().Len(); i++ {
			paramNames = append(paramNames, sig.Params().At(i).Name())
		}
	case c.StaticCallee() != nil:
		callee = c.StaticCallee()
		for _, a := range c.Args {
			args = append(args, vc.val(a))
		}
		sig = callee.Signature
		desc = fnKey(callee)
		if sig.Recv() != nil && len(args) > 0 {
			if _, isPtr := sig.Recv().Type().Underlying().(*types.Pointer); isPtr && strings.HasPrefix(fnPkgPath(callee), "github.com/DemoHn/Zn") {
				vc.assert("nil-deref", "receiver of "+callee.Name(), sNot(sEq(args[0].S, "0")))
			}
		}
		con = vc.eng.contractFor(callee)
		for _, p := range callee.Params {
			paramNames = append(paramNames, p.Name())
		}
		if len(callee.Params) == 0 && len(args) > 0 {
			// external function without body: names from signature
			if sig.Recv() != nil {
				paramNames = append(paramNames, sig.Recv().Name())
			}
			for i := 0; i < sig.Params().Len(); i++ {
				paramNames = append(paramNames, sig.Params().At(i).Name())
			}
		}
		if mc, ok := c.Value.(*ssa.MakeClosure); ok {
			// direct call of a closure literal: bind free variables
			_ = mc
		}
	default:
		// dynamic call through a func value
		fv := vc.val(c.Value)
		selfRef := false
		if u, ok := c.Value.(*ssa.UnOp); ok {
			if _, isFV := u.X.(*ssa.FreeVar); isFV {
				if f := vc.eng.resolveClosureCall(vc.fn, c.Value); f != nil && (f == vc.fn || vc.eng.assignedBeforeAnyCall(vc.fn, f)) {
					// the recursive-closure idiom: the variable a running closure reads itself (or a sibling closure) from
					// was assigned (once) with that closure before the enclosing function made any call
					selfRef = true
				}
			}
		}
		if !selfRef {
			vc.assert("nil-deref", "call "+vc.exprText(c.Value), sNot(sEq(sx("fn.id", fv.S), "0")))
		}
		for _, a := range c.Args {
			args = append(args, vc.val(a))
		}
		sig = c.Value.Type().Underlying().(*types.Signature)
		tn := types.TypeString(c.Value.Type(), func(p *types.Package) string { return p.Name() })
		con = vc.eng.specs.Contracts["functype:"+tn]
		if con == nil {
			con = vc.eng.functypeBySig(c.Value.Type())
		}
		desc = "func-value " + tn
		for i := 0; i < sig.Params().Len(); i++ {
			paramNames = append(paramNames, sig.Params().At(i).Name())
		}
		// statically resolvable closure variable?
		if f := vc.eng.resolveClosureCall(vc.fn, c.Value); f != nil {
			callee = f
			con = vc.eng.contractFor(f)
			desc = fnKey(f)
			paramNames = nil
			for _, p := range f.Params {
				paramNames = append(paramNames, p.Name())
			}
			closureFn = f
		}
	}
	if con != nil && con.Params != nil && len(con.Params) == len(args) && (con.Kind == "external" || con.Kind == "iface" || con.Kind == "functype") {
		paramNames = con.Params
	}
	vc.closureEnv = nil
	if closureFn != nil {
		// the closure's contract may name its captured variables: bind them to their current contents here
		vc.closureEnv = map[string]Val{}
		if closureFn != vc.fn && closureFn.Parent() != nil && closureFn.Parent() == vc.fn.Parent() {
			// a sibling closure: variables of the enclosing function captured by both are the same cells
			for _, cfv := range closureFn.FreeVars {
				for _, fv := range vc.fn.FreeVars {
					if fv.Name() != cfv.Name() || !types.Identical(fv.Type(), cfv.Type()) {
						continue
					}
					pt, isPtr := fv.Type().Underlying().(*types.Pointer)
					if !isPtr {
						continue
					}
					if r, ok := vc.regs[fv]; ok {
						a := vc.addrOfRef(r.S, fv.Type())
						k := vc.sorts.sortOf(pt.Elem())
						vc.closureEnv[cfv.Name()] = Val{vc.load(a), pt.Elem(), k}
					}
				}
			}
		}
		if closureFn == vc.fn {
			// a closure calling itself: its captured variables are the callee's captured variables (current contents)
			for _, fv := range vc.fn.FreeVars {
				pt, isPtr := fv.Type().Underlying().(*types.Pointer)
				if !isPtr {
					continue
				}
				if r, ok := vc.regs[fv]; ok {
					a := vc.addrOfRef(r.S, fv.Type())
					k := vc.sorts.sortOf(pt.Elem())
					vc.closureEnv[fv.Name()] = Val{vc.load(a), pt.Elem(), k}
				}
			}
		}
		for _, b := range vc.fn.Blocks {
			for _, ins := range b.Instrs {
				if mc, ok := ins.(*ssa.MakeClosure); ok && mc.Fn == closureFn {
					for i, bd := range mc.Bindings {
						if i >= len(closureFn.FreeVars) {
							break
						}
						pt, isPtr := bd.Type().Underlying().(*types.Pointer)
						if !isPtr {
							continue
						}
						if _, known := vc.addrs[bd]; !known {
							if _, isReg := vc.regs[bd]; !isReg {
								continue
							}
						}
						a := vc.addrOf(bd)
						k := vc.sorts.sortOf(pt.Elem())
						vc.closureEnv[closureFn.FreeVars[i].Name()] = Val{vc.load(a), pt.Elem(), k}
					}
				}
			}
		}
	}
	results := vc.applyContract(con, desc, wit, callee, sig, paramNames, args)
	vc.closureEnv = nil
	if x != nil {
		switch len(results) {
		case 0:
		case 1:
			vc.regs[x] = Val{results[0].S, x.Type(), results[0].K}
		default:
			vc.tuples[x] = results
		}
	}
}

// applyContract encodes a call: assert pre, havoc modifies, assume post. Returns result values.
func (vc *FnVC) applyContract(con *Contract, desc, wit string, callee *ssa.Function, sig *types.Signature, paramNames []string, args []Val) []Val {
	vc.calleesUsed[desc] = true
	// result values
	var results []Val
	var resNames []string
	if sig != nil {
		for i := 0; i < sig.Results().Len(); i++ {
			rt := sig.Results().At(i).Type()
			k := vc.sorts.sortOf(rt)
			results = append(results, Val{vc.fresh("ret_"+lastName(desc), k), rt, k})
			n := sig.Results().At(i).Name()
			if n == "" || n == "_" {
				n = fmt.Sprintf("r%d", i)
			}
			resNames = append(resNames, n)
		}
	}
	if con != nil && len(con.Results) == len(results) && len(results) > 0 {
		resNames = con.Results
	}
	pre := vc.st.clone()
	tickKey := "$tick"
	vc.registerKey(tickKey, SInt)

	env := vc.newEnv(con, callee)
	for n, v := range vc.closureEnv {
		env.vars[n] = v
	}
	for i, a := range args {
		if i < len(paramNames) && paramNames[i] != "" && paramNames[i] != "_" {
			env.vars[paramNames[i]] = a
		}
		env.vars[fmt.Sprintf("arg%d", i)] = a
	}
	env.cur = vc.st
	env.old = pre

	// `assert call F#k: expr` clauses of the enclosing function: a condition on the arguments at this call site
	if vc.con != nil {
		for i, ac := range vc.con.Asserts {
			src := strings.TrimSpace(ac.Src)
			if !strings.HasPrefix(src, "call ") {
				continue
			}
			rest := strings.TrimSpace(src[5:])
			k := strings.Index(rest, ":")
			if k < 0 {
				continue
			}
			target := strings.TrimSpace(rest[:k])
			tag := ""
			if strings.HasPrefix(target, "[") {
				if j := strings.Index(target, "]"); j > 0 {
					tag = target[1:j]
					target = strings.TrimSpace(target[j+1:])
				}
			}
			if !strings.Contains(target, "#") {
				target += "#1"
			}
			if target != wit {
				continue
			}
			e, err := parseSpecExpr(rest[k+1:])
			if err != nil {
				vc.specErrs = append(vc.specErrs, fmt.Sprintf("%s assert %d: %v", vc.key, i+1, err))
				continue
			}
			aenv := vc.invEnv(vc.st)
			for j, a := range args {
				aenv.vars[fmt.Sprintf("arg%d", j)] = a
			}
			t, serr := vc.trySpec(func() string { return aenv.boolExpr(e) })
			if serr != "" {
				vc.stale = append(vc.stale, fmt.Sprintf("%s assert at call %s: %s", vc.key, wit, serr))
				continue
			}
			vc.flushSide(aenv)
			if tag == "" {
				tag = fmt.Sprint(i + 1)
			}
			vc.assert("call-arg", wit+":"+tag, t)
		}
	}
	pure := con != nil && con.Pure
	if con == nil {
		// no contract: everything reachable may change; nothing is known about the result (unverified callee)
		if callee != nil && vc.eng.isKnownPureExternal(callee) {
			vc.note("external assumed pure, result unconstrained: " + desc)
			vc.trustedUsed["ext:"+desc] = true
		} else {
			vc.note("callee without contract (havoc-all, no panic assumed inside): " + desc)
			vc.trustedUsed["nocontract:"+desc] = true
			vc.frameCheckAll("call " + desc)
			vc.havocAll()
		}
	} else {
		if con.Kind == "external" || con.Trusted {
			vc.trustedUsed["assumed-contract:"+con.Key] = true
		}
		for i, rq := range con.Requires {
			parts := env.conjuncts(rq.Expr, false)
			vc.flushSide(env)
			for j, t := range parts {
				nm := fmt.Sprintf("%s:%s", desc, clauseName(rq, i))
				if len(parts) > 1 {
					nm = fmt.Sprintf("%s.%d", nm, j+1)
				}
				vc.assert("pre", nm, t)
			}
		}
		// termination of recursion: callee measure decreases
		if vc.con != nil && vc.con.FnDecr != nil && con.FnDecr != nil && callee != nil && vc.eng.sameSCC(vc.fn, callee) {
			m := env.intExpr(con.FnDecr.Expr)
			vc.assert("decreases", "call "+desc, sAnd(sx("<=", "0", m), sx("<", m, vc.fnDecr0())))
		}
		if !pure {
			if !con.HasMod {
				vc.note("contract without modifies clause (havoc-all): " + desc)
				vc.frameCheckAll("call " + desc)
				vc.havocAll()
			} else {
				targets, all := vc.evalTargets(con, env)
				if all {
					vc.frameCheckAll("call " + desc)
					vc.havocAll()
				} else {
					for _, t := range targets {
						if t.ref == "" {
							vc.frameCheckWhole(t.key, "call "+desc)
						} else {
							vc.frameCheck(t.key, t.ref)
						}
					}
					for _, t := range targets {
						sort := vc.keySort[t.key]
						if t.ref == "" {
							vc.setRaw(t.key, vc.fresh(sanitizeKey(t.key), sort))
						} else {
							// element sort of the array
							es := strings.TrimSuffix(strings.TrimPrefix(sort, "(Array Int "), ")")
							nv := vc.fresh(sanitizeKey(t.key)+"_at", es)
							vc.set(t.key, sStore(vc.cur(t.key), t.ref, nv))
						}
					}
					// allocation may have happened
					ak := vc.allocKey()
					na := vc.fresh("alloc", SInt)
					vc.assume(sx("<=", vc.cur(ak), na))
					vc.setRaw(ak, na)
				}
			}
		}
	}
	env.cur = vc.st
	if vc.afterHavoc {
		// encapsulated object invariants hold again whenever control is back in a function that never writes the fields
		vc.afterHavoc = false
		for _, p := range vc.fn.Params {
			vc.assumeTypeInv(vc.regs[p], false)
		}
		// locals holding pointers to objects with an encapsulated invariant
		var las []*ssa.Alloc
		for a := range vc.st.locals {
			las = append(las, a)
		}
		sort.Slice(las, func(i, j int) bool { return las[i].Pos() < las[j].Pos() || las[i].Pos() == las[j].Pos() && las[i].Name() < las[j].Name() })
		for _, a := range las {
			et := a.Type().(*types.Pointer).Elem()
			if c, _ := vc.typeInvFor(et); c != nil {
				vc.assumeTypeInv(Val{vc.st.locals[a], et, SInt}, false)
			}
		}
		for _, fv := range vc.freeVars {
			if pt, ok := fv.Type().Underlying().(*types.Pointer); ok {
				if _, isPtr := pt.Elem().Underlying().(*types.Pointer); isPtr {
					// captured pointer variable: its current content
					key, _ := vc.boxKey(pt.Elem())
					cv := Val{sSelect(vc.cur(key), vc.regs[fv].S), pt.Elem(), SInt}
					vc.assumeTypeInv(cv, false)
				}
			}
		}
	}
	for i, r := range results {
		env.vars[resNames[i]] = r
		env.vars[fmt.Sprintf("r%d", i)] = r
		defer vc.assumeTypeInv(r, false)
		if len(results) == 1 {
			env.vars["result"] = r
		}
		vc.assume(vc.typeFacts(r))
	}
	if pure && callee != nil && len(results) == 1 && vc.eng.heapIndependent(callee) {
		// deterministic: result is a function of the arguments
		vc.assume(sEq(results[0].S, vc.pureApp(callee, args)))
	}
	if con != nil {
		for _, en := range con.Ensures {
			if mentionsWitness(en.Expr) {
				continue // a clause over the callee's own call sites: an obligation of the callee, not a fact for callers
			}
			t, err := vc.trySpec(func() string { return env.boolExpr(en.Expr) })
			if err != "" {
				// a clause about the callee's locals (internal obligation of the callee) cannot be read by callers
				vc.note("clause of " + desc + " not usable at call sites: " + clauseName(en, 0))
				env.side = nil
				continue
			}
			vc.flushSide(env)
			vc.assume(t)
		}
	}
	// objects handed to the callee: their encapsulated invariants hold again on return (non-writer functions only)
	if con != nil && !pure {
		for _, a := range args {
			if a.T != nil {
				if _, isPtr := a.T.Underlying().(*types.Pointer); isPtr {
					vc.assumeTypeInv(a, false)
				}
			}
		}
	}
	// witnesses
	vc.set(tickKey, sx("+", vc.cur(tickKey), "1"))
	if vc.witKeys[wit] {
		vc.setWit(wit, "done", SBool, "true")
		vc.setWit(wit, "tick", SInt, vc.cur(tickKey))
		cntKey := "W$" + wit + "$count"
		vc.registerKey(cntKey, SInt)
		vc.set(cntKey, sx("+", vc.cur(cntKey), "1"))
		for i, a := range args {
			vc.setWitVal(wit, fmt.Sprintf("arg%d", i), a)
			if i < len(paramNames) && paramNames[i] != "" {
				vc.setWitVal(wit, "p_"+paramNames[i], a)
			}
		}
		for i, r := range results {
			vc.setWitVal(wit, fmt.Sprintf("r%d", i), r)
		}
	}
	return results
}

func (vc *FnVC) setWit(wit, field string, sort Sort, term string) {
	key := "W$" + wit + "$" + field
	vc.registerKey(key, sort)
	vc.set(key, term)
}

func (vc *FnVC) setWitVal(wit, field string, v Val) {
	key := "W$" + wit + "$" + field
	vc.registerKey(key, v.K)
	vc.eng.witTypes[vc.key+"|"+key] = v.T
	vc.set(key, v.S)
}

func lastName(s string) string {
	if i := strings.LastIndexAny(s, ". "); i >= 0 {
		s = s[i+1:]
	}
	return sanitize(s)
}

func clauseName(c *Clause, i int) string {
	if c.Tag != "" {
		return c.Tag
	}
	return fmt.Sprint(i + 1)
}

func (vc *FnVC) flushSide(env *SpecEnv) {
	for _, s := range env.side {
		vc.assume(s)
	}
	env.side = nil
}

func (vc *FnVC) havocAll() {
	oldEpoch := vc.st.epoch
	vc.epochN++
	vc.st.epoch = vc.epochN
	newEpoch := vc.st.epoch
	pres := map[string]string{}
	for _, k := range vc.keyOrd {
		if isHeapKey(k) && vc.immutableKey(k) {
			pres[k] = vc.cur(k)
		}
	}
	// what no callee can reach: captured variables nobody reassigns, and slices private to this function
	type keep struct{ key, ref, old string }
	var keeps []keep
	vc.st.epoch = oldEpoch // read the pre-havoc values
	for _, sb := range vc.stableBoxes {
		keeps = append(keeps, keep{sb.key, sb.ref, sSelect(vc.cur(sb.key), sb.ref)})
	}
	for _, sb := range vc.ownedFields {
		if fo := vc.objInfo[sb.ref]; fo != nil && len(fo.sites) > 0 && vc.handedOnBefore(fo) {
			continue // the object has been (or is being) handed on: the callee may reach it
		}
		keeps = append(keeps, keep{sb.key, sb.ref, sSelect(vc.cur(sb.key), sb.ref)})
	}
	for a := range vc.privSlices {
		cur, ok := vc.st.locals[a]
		if !ok {
			continue
		}
		st := a.Type().(*types.Pointer).Elem().Underlying().(*types.Slice)
		key, _ := vc.memKey(st.Elem())
		base := sx("sl.base", cur)
		keeps = append(keeps, keep{key, base, sSelect(vc.cur(key), base)})
	}
	vc.st.epoch = newEpoch
	defer func() {
		for _, k := range keeps {
			vc.assume(sEq(sSelect(vc.cur(k.key), k.ref), k.old))
		}
	}()
	for k := range vc.st.vars {
		if isHeapKey(k) && !vc.eng.immutableGlobalKey(k) {
			delete(vc.st.vars, k)
		}
	}
	for k, v := range pres {
		vc.st.vars[k] = v // immutable syntax-tree data survives any call
	}
	vc.afterHavoc = true
	ak := vc.allocKey()
	na := vc.fresh("alloc", SInt)
	vc.assume(sx("<=", vc.cur(ak), na))
	vc.setRaw(ak, na)
}

func (vc *FnVC) frameCheckAll(what string) {
	if vc.frameAll {
		return
	}
	vc.assert("frame", what+" may modify anything", "false")
}

func (vc *FnVC) frameCheckWhole(key, what string) {
	if vc.frameAll {
		return
	}
	for _, t := range vc.frameTargets {
		if t.key == key && t.ref == "" {
			return
		}
	}
	vc.assert("frame", what+" may modify all of "+key, "false")
}

// evalTargets evaluates a contract's modifies clause in env (current state = pre-state of the call / entry state).
func (vc *FnVC) evalTargets(con *Contract, env *SpecEnv) (out []frameTarget, all bool) {
	for _, raw := range con.Modifies {
		raw = strings.TrimSpace(raw)
		switch {
		case raw == "*":
			return nil, true
		case strings.HasPrefix(raw, "key:"):
			k := strings.TrimPrefix(raw, "key:")
			if _, ok := vc.keySort[k]; !ok {
				if !vc.registerRawKey(k) {
					vc.fail("modifies: unknown raw key %s", k)
				}
			}
			out = append(out, frameTarget{k, ""})
		case strings.HasPrefix(raw, "global "):
			name := strings.TrimSpace(strings.TrimPrefix(raw, "global "))
			g := env.lookupGlobal(name)
			if g == nil {
				vc.fail("modifies: unknown global %s", name)
			}
			key, _ := vc.globalKey(g)
			out = append(out, frameTarget{key, ""})
		case strings.HasPrefix(raw, "mem(") && strings.HasSuffix(raw, ")"):
			e, err := parseSpecExpr(raw[4 : len(raw)-1])
			if err != nil {
				vc.fail("modifies: %v", err)
			}
			v := env.expr(e)
			st, ok := v.T.Underlying().(*types.Slice)
			if !ok {
				vc.fail("modifies mem(%s): not a slice", raw)
			}
			key, _ := vc.memKey(st.Elem())
			out = append(out, frameTarget{key, sx("sl.base", v.S)})
		case strings.HasPrefix(raw, "map(") && strings.HasSuffix(raw, ")"):
			e, err := parseSpecExpr(raw[4 : len(raw)-1])
			if err != nil {
				vc.fail("modifies: %v", err)
			}
			v := env.expr(e)
			mt, ok := v.T.Underlying().(*types.Map)
			if !ok {
				vc.fail("modifies map(%s): not a map", raw)
			}
			dom, val, ln, _, _ := vc.mapKeys(mt)
			out = append(out, frameTarget{dom, v.S}, frameTarget{val, v.S}, frameTarget{ln, v.S})
		case strings.HasPrefix(raw, "box(") && strings.HasSuffix(raw, ")"):
			e, err := parseSpecExpr(raw[4 : len(raw)-1])
			if err != nil {
				vc.fail("modifies: %v", err)
			}
			v := env.expr(e)
			pt, ok := v.T.Underlying().(*types.Pointer)
			if !ok {
				vc.fail("modifies box(%s): not a pointer", raw)
			}
			key, _ := vc.boxKey(pt.Elem())
			out = append(out, frameTarget{key, v.S})
		case strings.HasSuffix(raw, ".*"):
			e, err := parseSpecExpr(strings.TrimSuffix(raw, ".*"))
			if err != nil {
				vc.fail("modifies: %v", err)
			}
			v := env.expr(e)
			pt, ok := v.T.Underlying().(*types.Pointer)
			if !ok {
				vc.fail("modifies %s: not a pointer to struct", raw)
			}
			s, ok := pt.Elem().Underlying().(*types.Struct)
			if !ok {
				vc.fail("modifies %s: not a pointer to struct", raw)
			}
			for i := 0; i < s.NumFields(); i++ {
				key, _, _ := vc.fieldKey(pt.Elem(), i)
				out = append(out, frameTarget{key, v.S})
			}
		default:
			e, err := parseSpecExpr(raw)
			if err != nil {
				vc.fail("modifies: %v", err)
			}
			if e.Op != "sel" {
				vc.fail("modifies target %q: expected X.f, X.*, mem(s), map(m), box(p), global g, key:K or *", raw)
			}
			v := env.expr(e.Args[0])
			pt, ok := v.T.Underlying().(*types.Pointer)
			if !ok {
				vc.fail("modifies %s: base is not a pointer", raw)
			}
			s, ok := pt.Elem().Underlying().(*types.Struct)
			if !ok {
				vc.fail("modifies %s: base is not a pointer to struct", raw)
			}
			found := false
			for i := 0; i < s.NumFields(); i++ {
				if s.Field(i).Name() == e.Name {
					key, _, _ := vc.fieldKey(pt.Elem(), i)
					out = append(out, frameTarget{key, v.S})
					found = true
				}
			}
			if !found {
				vc.fail("modifies %s: no such field", raw)
			}
		}
	}
	return out, false
}

// registerRawKey registers Mem$/Box$ keys named directly in a modifies clause.
func (vc *FnVC) registerRawKey(k string) bool {
	rev := map[string]Sort{"Int": "Int", "Bool": "Bool", "Str": "Str", "Iface": "Iface", "Slice": "Slice", "F64": "F64", "Func": "Func"}
	for _, pre := range []string{"Mem$", "Box$"} {
		if strings.HasPrefix(k, pre) {
			es, ok := rev[strings.TrimPrefix(k, pre)]
			if !ok {
				// struct datatype sort
				es = strings.TrimPrefix(k, pre)
				if _, ok2 := vc.sorts.structs[es]; !ok2 {
					return false
				}
			}
			if pre == "Mem$" {
				vc.registerKey(k, "(Array Int (Array Int "+es+"))")
			} else {
				vc.registerKey(k, "(Array Int "+es+")")
			}
			return true
		}
	}
	if k == "MapLen" {
		vc.registerKey(k, "(Array Int Int)")
		return true
	}
	if strings.HasPrefix(k, "F$") {
		// F$<pkg>.<Type>$<field>
		rest := strings.TrimPrefix(k, "F$")
		i := strings.LastIndex(rest, "$")
		j := strings.Index(rest, ".")
		if i > 0 && j > 0 && j < i {
			if pkg := vc.eng.pkgByName(rest[:j]); pkg != nil {
				if o := pkg.Scope().Lookup(rest[j+1 : i]); o != nil {
					if st, ok := o.Type().Underlying().(*types.Struct); ok {
						for f := 0; f < st.NumFields(); f++ {
							if st.Field(f).Name() == rest[i+1:] {
								key, _, _ := vc.fieldKey(o.Type(), f)
								return key == k
							}
						}
					}
				}
			}
		}
	}
	return false
}

func (vc *FnVC) pureApp(f *ssa.Function, args []Val) string {
	name := "pure$" + sanitize(fnKey(f))
	var sorts, terms []string
	for _, a := range args {
		sorts = append(sorts, a.K)
		terms = append(terms, a.S)
	}
	rs := vc.sorts.sortOf(f.Signature.Results().At(0).Type())
	vc.sorts.declareFun(name, "("+strings.Join(sorts, " ")+") "+rs)
	if len(terms) == 0 {
		return name
	}
	return sx(name, terms...)
}

func (vc *FnVC) fnDecr0() string {
	return vc.cur("$decr0")
}

// ---- builtins ----

func (vc *FnVC) doBuiltin(x ssa.Value, b *ssa.Builtin, c *ssa.CallCommon) {
	switch b.Name() {
	case "len":
		a := vc.val(c.Args[0])
		switch t := c.Args[0].Type().Underlying().(type) {
		case *types.Slice:
			vc.setReg(x, sx("sl.len", a.S))
		case *types.Basic:
			vc.setReg(x, sx("gs.len", a.S))
		case *types.Map:
			_, _, ln, _, _ := vc.mapKeys(t)
			r := vc.setReg(x, sIte(sEq(a.S, "0"), "0", sSelect(vc.cur(ln), a.S)))
			vc.assume(sAnd(sx("<=", "0", r.S), sx("<=", r.S, maxLen)))
		case *types.Array:
			vc.setReg(x, fmt.Sprint(t.Len()))
		case *types.Pointer:
			vc.setReg(x, fmt.Sprint(t.Elem().Underlying().(*types.Array).Len()))
		default:
			vc.fail("len of %s", c.Args[0].Type())
		}
	case "cap":
		a := vc.val(c.Args[0])
		switch c.Args[0].Type().Underlying().(type) {
		case *types.Slice:
			vc.setReg(x, sx("sl.cap", a.S))
		default:
			vc.fail("cap of %s", c.Args[0].Type())
		}
	case "append":
		vc.doAppend(x, c)
	case "copy":
		vc.doCopy(x, c)
	case "delete":
		vc.doMapDelete(c.Args[0], c.Args[1])
	case "print", "println":
	case "ssa:deferstack":
		vc.regs[x] = Val{"0", x.Type(), SInt}
	case "min", "max":
		a, bb := vc.val(c.Args[0]), vc.val(c.Args[1])
		if len(c.Args) != 2 || !isIntLike(c.Args[0].Type()) {
			vc.fail("min/max form")
		}
		if b.Name() == "min" {
			vc.setReg(x, sIte(sx("<=", a.S, bb.S), a.S, bb.S))
		} else {
			vc.setReg(x, sIte(sx(">=", a.S, bb.S), a.S, bb.S))
		}
	case "ssa:wrapnilchk":
		a := vc.val(c.Args[0])
		vc.assert("nil-deref", "wrapnilchk", sNot(sEq(a.S, "0")))
		vc.regs[x] = a
	case "recover":
		k := vc.sorts.sortOf(x.Type())
		vc.regs[x] = Val{vc.fresh("recovered", k), x.Type(), k}
	default:
		vc.fail("builtin %s", b.Name())
	}
}

// staticLen returns the statically known length of a slice value built as `new [n]T; slice[:]` (varargs), or -1.
func staticLen(v ssa.Value) int64 {
	if s, ok := v.(*ssa.Slice); ok && s.Low == nil && s.High == nil {
		if a, ok := s.X.(*ssa.Alloc); ok {
			if at, ok := a.Type().(*types.Pointer).Elem().Underlying().(*types.Array); ok {
				return at.Len()
			}
		}
	}
	return -1
}

func (vc *FnVC) doAppend(x ssa.Value, c *ssa.CallCommon) {
	s := vc.val(c.Args[0])
	st := c.Args[0].Type().Underlying().(*types.Slice)
	key, es := vc.memKey(st.Elem())
	arrSort := "(Array Int " + es + ")"
	// source elements
	var srcArr, srcOff, k string
	if isString(c.Args[1].Type()) {
		// append([]byte, string...)
		sv := vc.val(c.Args[1])
		k = sx("gs.len", sv.S)
		srcArr = vc.fresh("strbytes", arrSort)
		vc.body = append(vc.body, fmt.Sprintf("(assert (forall ((i Int)) (! (= (select %s i) (gs.at %s i)) :pattern ((select %s i)))))", srcArr, sv.S, srcArr))
		srcOff = "0"
	} else {
		xs := vc.val(c.Args[1])
		k = sx("sl.len", xs.S)
		srcArr = vc.define("src", arrSort, sSelect(vc.cur(key), sx("sl.base", xs.S)))
		srcOff = sx("sl.off", xs.S)
	}
	n := staticLen(c.Args[1])
	oldMem := vc.cur(key)
	ln := sx("sl.len", s.S)
	off := sx("sl.off", s.S)
	base := sx("sl.base", s.S)
	newLen := vc.define("newlen", SInt, sx("+", ln, k))
	// growing beyond the address space ends in an out-of-memory abort, which is outside every claim
	vc.assume(sx("<=", newLen, maxLen))
	vc.note("append never exceeds 2^47 elements (out-of-memory is outside the claim)")
	inPlace := vc.define("inplace", SBool, sx("<=", newLen, sx("sl.cap", s.S)))
	oldArr := vc.define("dstold", arrSort, sSelect(oldMem, base))
	// in-place result array
	var inArr string
	if n >= 0 && n <= 4 {
		inArr = oldArr
		for j := int64(0); j < n; j++ {
			inArr = sStore(inArr, sx("sl.ix", off, sx("+", ln, sInt(j))), sSelect(srcArr, sx("sl.ix", srcOff, sInt(j))))
		}
		inArr = vc.define("inarr", arrSort, inArr)
	} else {
		inArr = vc.fresh("inarr", arrSort)
		start := vc.define("start", SInt, sx("+", off, ln))
		vc.body = append(vc.body, fmt.Sprintf("(assert (forall ((j Int)) (! (= (select %s j) (ite (and (<= %s j) (< j (+ %s %s))) (select %s (+ %s (- j %s))) (select %s j))) :pattern ((select %s j)))))",
			inArr, start, start, k, srcArr, srcOff, start, oldArr, inArr))
	}
	// reallocated result array
	newBase := vc.fresh("newbase", SInt)
	newCap := vc.fresh("newcap", SInt)
	reArr := vc.fresh("rearr", arrSort)
	vc.body = append(vc.body, fmt.Sprintf("(assert (forall ((j Int)) (! (=> (and (<= 0 j) (< j %s)) (= (select %s j) (ite (< j %s) (select %s (+ %s j)) (select %s (+ %s (- j %s)))))) :pattern ((select %s j)))))",
		newLen, reArr, ln, oldArr, off, srcArr, srcOff, ln, reArr))
	ak := vc.allocKey()
	oldAlloc := vc.cur(ak)
	vc.assume(sAnd(sEq(newBase, sx("+", oldAlloc, "1")), sx("<=", newLen, newCap), sx("<=", newCap, maxLen)))
	vc.setRaw(ak, vc.define("alloc", SInt, sIte(inPlace, oldAlloc, newBase)))
	// a write in place must be allowed by the frame (it is visible through aliases of the backing array)
	if !vc.frameAll {
		allowed := []string{sNot(inPlace), sEq(k, "0"), sx(">", base, vc.entryAlloc)}
		for _, t := range vc.frameTargets {
			if t.key == key {
				if t.ref == "" {
					allowed = []string{"true"}
					break
				}
				allowed = append(allowed, sEq(base, t.ref))
			}
		}
		vc.assert("frame", "append in place "+key, sOr(allowed...))
	}
	vc.set(key, sIte(inPlace, sStore(oldMem, base, inArr), sStore(oldMem, newBase, reArr)))
	vc.setReg(x, sIte(inPlace, sx("mk-slice", base, off, newLen, sx("sl.cap", s.S)), sx("mk-slice", newBase, "0", newLen, newCap)))
}

func (vc *FnVC) doCopy(x ssa.Value, c *ssa.CallCommon) {
	d := vc.val(c.Args[0])
	st := c.Args[0].Type().Underlying().(*types.Slice)
	key, es := vc.memKey(st.Elem())
	arrSort := "(Array Int " + es + ")"
	var srcArr, srcOff, sl string
	if isString(c.Args[1].Type()) {
		sv := vc.val(c.Args[1])
		sl = sx("gs.len", sv.S)
		srcArr = vc.fresh("strbytes", arrSort)
		vc.body = append(vc.body, fmt.Sprintf("(assert (forall ((i Int)) (! (= (select %s i) (gs.at %s i)) :pattern ((select %s i)))))", srcArr, sv.S, srcArr))
		srcOff = "0"
	} else {
		s := vc.val(c.Args[1])
		sl = sx("sl.len", s.S)
		srcArr = vc.define("src", arrSort, sSelect(vc.cur(key), sx("sl.base", s.S)))
		srcOff = sx("sl.off", s.S)
	}
	n := vc.define("ncopy", SInt, sIte(sx("<=", sx("sl.len", d.S), sl), sx("sl.len", d.S), sl))
	oldArr := sSelect(vc.cur(key), sx("sl.base", d.S))
	na := vc.fresh("copied", arrSort)
	off := sx("sl.off", d.S)
	vc.body = append(vc.body, fmt.Sprintf("(assert (forall ((j Int)) (! (= (select %s j) (ite (and (<= %s j) (< j (+ %s %s))) (select %s (+ %s (- j %s))) (select %s j))) :pattern ((select %s j)))))",
		na, off, off, n, srcArr, srcOff, off, oldArr, na))
	vc.frameCheck(key, sx("sl.base", d.S))
	vc.set(key, sIte(sEq(n, "0"), vc.cur(key), sStore(vc.cur(key), sx("sl.base", d.S), na)))
	vc.setReg(x, n)
}

// ---- closures ----

func (vc *FnVC) doMakeClosure(x *ssa.MakeClosure) {
	fn := x.Fn.(*ssa.Function)
	id := vc.eng.funcID(fn)
	// environment: a fresh object whose cells hold the bindings
	env := vc.newRef("env")
	for i, b := range x.Bindings {
		key := fmt.Sprintf("F$closure$%s$fv%d", sanitize(fnKey(fn)), i)
		bv := vc.val(b)
		vc.registerKey(key, "(Array Int "+bv.K+")")
		vc.set(key, sStore(vc.cur(key), env, bv.S))
	}
	vc.setReg(x, sx("mk-func", fmt.Sprint(id), env))
}

func (vc *FnVC) doRunDefers(x *ssa.RunDefers) {
	for i := len(vc.defers) - 1; i >= 0; i-- {
		d := vc.defers[i]
		db := d.Block()
		rb := x.Block()
		if db == rb || db.Dominates(rb) {
			if vc.inLoop(db) {
				vc.fail("defer inside a loop")
			}
			vc.doCall(nil, &d.Call)
			continue
		}
		if reaches(db, rb) {
			vc.fail("conditional defer reaching rundefers")
		}
	}
	// defers not yet seen in topological order but reaching this block
	for _, b := range vc.fn.Blocks {
		for _, ins := range b.Instrs {
			if d, ok := ins.(*ssa.Defer); ok {
				seen := false
				for _, s := range vc.defers {
					if s == d {
						seen = true
					}
				}
				if !seen && reaches(b, x.Block()) {
					vc.fail("defer ordering")
				}
			}
		}
	}
}

func (vc *FnVC) inLoop(b *ssa.BasicBlock) bool {
	for _, l := range vc.loops {
		if l.body[b] {
			return true
		}
	}
	return false
}

func reaches(a, b *ssa.BasicBlock) bool {
	seen := map[*ssa.BasicBlock]bool{}
	var dfs func(x *ssa.BasicBlock) bool
	dfs = func(x *ssa.BasicBlock) bool {
		if x == b {
			return true
		}
		if seen[x] {
			return false
		}
		seen[x] = true
		for _, s := range x.Succs {
			if dfs(s) {
				return true
			}
		}
		return false
	}
	for _, s := range a.Succs {
		if dfs(s) {
			return true
		}
	}
	return false
}

func sortedFrameTargets(ts []frameTarget) []frameTarget {
	sort.Slice(ts, func(i, j int) bool { return ts[i].key+ts[i].ref < ts[j].key+ts[j].ref })
	return ts
}

func fnPkgPath(f *ssa.Function) string {
	if f.Pkg != nil {
		return f.Pkg.Pkg.Path()
	}
	if f.Signature.Recv() != nil {
		if n, ok := derefNamed(f.Signature.Recv().Type()); ok && n.Obj().Pkg() != nil {
			return n.Obj().Pkg().Path()
		}
	}
	return ""
}

// registerWitnessSig registers the ghost variable of witness field `field` of call site `wit` (name#k) before the call
// has been lowered on the current path, from the signature of any call site with that witness name.
func (vc *FnVC) registerWitnessSig(wit, field string) bool {
	base := wit
	if i := strings.Index(wit, "#"); i >= 0 {
		base = wit[:i]
	}
	for _, b := range vc.fn.Blocks {
		for _, ins := range b.Instrs {
			ci, ok := ins.(ssa.CallInstruction)
			if !ok {
				continue
			}
			c := ci.Common()
			if _, isB := c.Value.(*ssa.Builtin); isB {
				continue
			}
			if witnessName(c) != base {
				continue
			}
			var argTs []types.Type
			if c.IsInvoke() {
				argTs = append(argTs, c.Value.Type())
			}
			for _, a := range c.Args {
				argTs = append(argTs, a.Type())
			}
			sig := c.Signature()
			key := "W$" + wit + "$" + field
			reg := func(t types.Type) bool {
				vc.registerKey(key, vc.sorts.sortOf(t))
				vc.eng.witTypes[vc.key+"|"+key] = t
				return true
			}
			var n int
			if _, err := fmt.Sscanf(field, "arg%d", &n); err == nil && n < len(argTs) {
				return reg(argTs[n])
			}
			if _, err := fmt.Sscanf(field, "r%d", &n); err == nil && n < sig.Results().Len() {
				return reg(sig.Results().At(n).Type())
			}
		}
	}
	return false
}

func mentionsWitness(e *SpecExpr) bool {
	if e == nil {
		return false
	}
	if e.Op == "wit" {
		return true
	}
	for _, a := range e.Args {
		if mentionsWitness(a) {
			return true
		}
	}
	return false
}
