#!/bin/bash
# usage: mut.sh <file-relative-to-repo> <sed-expr> <fn-regex>  -- applies a one-off mutation in a scratch copy and runs znvc
set -e
S=/tmp/zn-mut
rm -rf $S; rsync -a --exclude .git /repo/ $S/
sed -i "$2" $S/$1
if diff -q /repo/$1 $S/$1 >/dev/null; then echo "MUTATION DID NOT APPLY"; exit 3; fi
(cd $S && GOFLAGS=-mod=mod GOPROXY=off GOSUMDB=off GOTOOLCHAIN=local go build ./pkg/... 2>&1 | grep -v "pkg/server\|^#" | head -5)
/verif/bin/znvc verify -repo $S -fn "$3" 2>&1 | grep -v "^OK\|^loaded\|obligations discharged" | head -${4:-8}
rm -rf $S
