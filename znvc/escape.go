package main

// Which fields of an object allocated by the function under verification can no callee reach?
//
// A `modifies *` callee may write everything it can reach. It cannot reach an object that the caller allocated and
// never handed out: such an object is only used through field addresses, kept in local variables and returned. If the
// object is (only) captured by closures of the same function, a callee can reach it through those closures and
// nothing else, so exactly the fields that some closure stores to may change.
//
// keptFields returns the field indexes that survive any call, or nil when the object escapes.

import (
	"go/types"
	"strings"

	"golang.org/x/tools/go/ssa"
)

type objUse struct {
	returns       map[*ssa.Return]bool     // return instructions that (may) return the object
	sites         map[ssa.Instruction]bool // instructions at which the object is handed to code that may keep or change it
	escaped       bool
	closureWrites map[int]bool // fields stored to by closures that capture the object
	captured      bool
	seen          map[ssa.Value]bool
	eng           *Engine
}

func (eng *Engine) keptFields(x *ssa.Alloc) []int {
	st, ok := x.Type().(*types.Pointer).Elem().Underlying().(*types.Struct)
	if !ok {
		return nil
	}
	u := eng.analyseObj(x)
	// (an object that is handed on at some point keeps these fields only until then: see FnVC.havocAll)
	var out []int
	for i := 0; i < st.NumFields(); i++ {
		if _, isStruct := st.Field(i).Type().Underlying().(*types.Struct); isStruct {
			continue // embedded structs are addressed through interior pointers: not tracked
		}
		if !u.closureWrites[i] {
			out = append(out, i)
		}
	}
	return out
}

func (eng *Engine) analyseObj(x *ssa.Alloc) *objUse {
	u := &objUse{closureWrites: map[int]bool{}, seen: map[ssa.Value]bool{}, eng: eng, sites: map[ssa.Instruction]bool{}, returns: map[*ssa.Return]bool{}}
	u.value(x, false)
	return u
}

// escapeSites: the instructions at which the object allocated by x first becomes reachable for other code.
func (eng *Engine) escapeSites(x *ssa.Alloc) (map[ssa.Instruction]bool, map[*ssa.Return]bool) {
	u := eng.analyseObj(x)
	return u.sites, u.returns
}

func (u *objUse) escape(at ssa.Instruction) {
	u.escaped = true
	if at != nil {
		u.sites[at] = true
	}
}

// value: v holds the pointer to the object (or an interface wrapping it); inClosure: v lives in a capturing closure.
func (u *objUse) value(v ssa.Value, inClosure bool) {
	if u.seen[v] {
		return
	}
	u.seen[v] = true
	refs := v.Referrers()
	if refs == nil {
		u.escape(nil)
		return
	}
	for _, r := range *refs {
		switch x := r.(type) {
		case *ssa.DebugRef:
		case *ssa.Return:
			u.returns[x] = true
		case *ssa.FieldAddr:
			if x.X != v {
				u.escape(x)
				continue
			}
			if _, isStruct := x.Type().(*types.Pointer).Elem().Underlying().(*types.Struct); isStruct {
				// address of an embedded struct: whoever gets it may write that part; conservatively treat its uses
				u.fieldAddr(x, x.Field, inClosure, true)
			} else {
				u.fieldAddr(x, x.Field, inClosure, false)
			}
		case *ssa.Store:
			if x.Addr == v {
				// whole-object store through the pointer: every field is written
				if inClosure {
					u.allWritten(v)
				}
				continue
			}
			// the pointer is stored somewhere: only local variable cells are followed
			cell, ok := x.Addr.(*ssa.Alloc)
			if !ok {
				u.escape(x)
				continue
			}
			u.cell(cell, inClosure)
		case *ssa.UnOp:
			// load of the whole struct value: reading is harmless
		case *ssa.BinOp:
			// comparison with nil
		case *ssa.MakeInterface:
			u.value(x, inClosure)
		case *ssa.ChangeInterface:
			u.value(x, inClosure)
		case *ssa.TypeAssert:
			u.value(x, inClosure)
		case *ssa.Extract:
			u.value(x, inClosure)
		case *ssa.Phi:
			u.value(x, inClosure)
		case ssa.CallInstruction:
			// handed to a callee: fine only when the callee provably touches nothing (pure / modifies nothing)
			if !u.eng.calleeTouchesNothing(x.Common()) {
				u.escape(x)
			}
		default:
			u.escape(r)
		}
	}
}

func (u *objUse) allWritten(v ssa.Value) {
	if pt, ok := v.Type().Underlying().(*types.Pointer); ok {
		if st, ok := pt.Elem().Underlying().(*types.Struct); ok {
			for i := 0; i < st.NumFields(); i++ {
				u.closureWrites[i] = true
			}
		}
	}
}

func (u *objUse) fieldAddr(fa ssa.Value, field int, inClosure bool, embedded bool) {
	refs := fa.Referrers()
	if refs == nil {
		return
	}
	for _, r := range *refs {
		switch x := r.(type) {
		case *ssa.DebugRef:
		case *ssa.UnOp:
			if embedded {
				// loading the embedded struct value is harmless
			}
		case *ssa.Store:
			if x.Addr != fa {
				u.escape(x) // the field's address is stored somewhere
				continue
			}
			if inClosure {
				u.closureWrites[field] = true
			}
		case *ssa.FieldAddr:
			if embedded {
				u.fieldAddr(x, field, inClosure, false)
			} else {
				u.escape(x)
				continue
			}
		default:
			// the address of the field is passed on (method call on an embedded struct, IndexAddr, ...)
			if inClosure || embedded {
				u.closureWrites[field] = true
				if !inClosure {
					// the caller itself passes the embedded part to a callee: that callee can write only this part
					continue
				}
				continue
			}
			u.escape(r)
		}
	}
}

// cell: a local variable (possibly boxed because closures capture it) that holds the pointer.
func (u *objUse) cell(c *ssa.Alloc, inClosure bool) {
	if u.seen[c] {
		return
	}
	u.seen[c] = true
	for _, r := range *c.Referrers() {
		switch x := r.(type) {
		case *ssa.DebugRef:
		case *ssa.Store:
			if x.Addr != c {
				u.escape(x) // the variable's address is stored
				continue
			}
		case *ssa.UnOp:
			u.value(x, inClosure)
		case *ssa.MakeClosure:
			fn, ok := x.Fn.(*ssa.Function)
			if !ok {
				u.escape(x)
				continue
			}
			u.captured = true
			for i, b := range x.Bindings {
				if b == ssa.Value(c) && i < len(fn.FreeVars) {
					u.freeVar(fn.FreeVars[i])
				}
			}
		default:
			u.escape(r)
		}
	}
}

func (u *objUse) freeVar(fv *ssa.FreeVar) {
	if u.seen[fv] {
		return
	}
	u.seen[fv] = true
	for _, r := range *fv.Referrers() {
		switch x := r.(type) {
		case *ssa.DebugRef:
		case *ssa.Store:
			if x.Addr != ssa.Value(fv) {
				u.escape(x)
				continue
			}
		case *ssa.UnOp:
			u.value(x, true)
		case *ssa.MakeClosure:
			fn, ok := x.Fn.(*ssa.Function)
			if !ok {
				u.escape(x)
				continue
			}
			for i, b := range x.Bindings {
				if b == ssa.Value(fv) && i < len(fn.FreeVars) {
					u.freeVar(fn.FreeVars[i])
				}
			}
		default:
			u.escape(r)
		}
	}
}

// calleeTouchesNothing: the callee provably neither changes the object's (pointer-typed) parts nor keeps the pointer:
// its contract is pure / `modifies nothing`, or every modifies target is a scalar field (an int, bool, text or float
// cannot hold a reference, so the pointer cannot be stored anywhere the callee may write).
func (eng *Engine) calleeTouchesNothing(c *ssa.CallCommon) bool {
	var con *Contract
	if c.IsInvoke() {
		iname := types.TypeString(c.Value.Type(), func(p *types.Package) string { return p.Name() })
		con = eng.specs.Contracts["iface:"+iname+"."+c.Method.Name()]
	} else if f := c.StaticCallee(); f != nil {
		con = eng.specs.Contracts[fnKey(f)]
	}
	if con == nil || !(con.Pure || con.HasMod) {
		return false
	}
	if con.Pure || len(con.Modifies) == 0 {
		return true
	}
	for _, t := range con.Modifies {
		if !eng.scalarTarget(t) {
			return false
		}
	}
	return true
}

// scalarTarget: `key:F$pkg.Type$field` or `x.field` naming a field of basic type.
func (eng *Engine) scalarTarget(t string) bool {
	t = strings.TrimSpace(t)
	if strings.HasPrefix(t, "key:F$") {
		rest := strings.TrimPrefix(t, "key:F$")
		i := strings.LastIndex(rest, "$")
		j := strings.Index(rest, ".")
		if i <= 0 || j <= 0 || j >= i {
			return false
		}
		pkg := eng.pkgByName(rest[:j])
		if pkg == nil {
			return false
		}
		o := pkg.Scope().Lookup(rest[j+1 : i])
		if o == nil {
			return false
		}
		st, ok := o.Type().Underlying().(*types.Struct)
		if !ok {
			return false
		}
		for f := 0; f < st.NumFields(); f++ {
			if st.Field(f).Name() == rest[i+1:] {
				_, basic := st.Field(f).Type().Underlying().(*types.Basic)
				return basic
			}
		}
	}
	return false
}
