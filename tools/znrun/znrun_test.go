package exec

// Witness runner (injected into package exec with `go test -overlay`; nothing is written into /repo).
// Reads a JSON list of {"name","source"} from $ZNRUN_IN and prints one line per program:
//   ZNRUN <name> ok <value> | error <message> | panic <message> | hang

import (
	"encoding/json"
	"fmt"
	"os"
	"path/filepath"
	"strings"
	"testing"
	"time"

	"github.com/DemoHn/Zn/pkg/runtime"
	libFile "github.com/DemoHn/Zn/stdlib/file"
	libJson "github.com/DemoHn/Zn/stdlib/json"
)

type znProg struct {
	Name    string            `json:"name"`
	Source  string            `json:"source"`
	Modules map[string]string `json:"modules"` // optional: relative path (e.g. "甲.zn", "库/乙.zn") -> source; the program then runs as a file
}

func TestZnvcRun(t *testing.T) {
	data, err := os.ReadFile(os.Getenv("ZNRUN_IN"))
	if err != nil {
		t.Fatal(err)
	}
	var progs []znProg
	if err := json.Unmarshal(data, &progs); err != nil {
		t.Fatal(err)
	}
	for _, p := range progs {
		done := make(chan string, 1)
		go func(p znProg) {
			defer func() {
				if r := recover(); r != nil {
					done <- "panic " + strings.ReplaceAll(fmt.Sprint(r), "\n", " ")
				}
			}()
			in := NewInterpreter("znrun").SetExternalLibs([]*runtime.Library{libJson.Export(), libFile.Export()})
			if len(p.Modules) > 0 {
				dir, derr := os.MkdirTemp("", "znrunmods")
				if derr != nil {
					done <- "error " + derr.Error()
					return
				}
				defer os.RemoveAll(dir)
				for rel, src := range p.Modules {
					os.MkdirAll(filepath.Dir(filepath.Join(dir, rel)), 0o755)
					os.WriteFile(filepath.Join(dir, rel), []byte(src), 0o644)
				}
				os.WriteFile(filepath.Join(dir, "main.zn"), []byte(p.Source), 0o644)
				in.LoadFile(filepath.Join(dir, "main.zn"))
			} else {
				in.LoadScript([]rune(p.Source))
			}
			v, err := in.Execute(runtime.ElementMap{})
			if err != nil {
				done <- "error " + strings.ReplaceAll(err.Error(), "\n", " | ")
				return
			}
			if v == nil {
				done <- "ok <nil element>"
				return
			}
			done <- "ok " + v.String()
		}(p)
		select {
		case r := <-done:
			fmt.Printf("ZNRUN %s %s\n", p.Name, r)
		case <-time.After(5 * time.Second):
			fmt.Printf("ZNRUN %s hang\n", p.Name)
		}
	}
}
