package main

// Mapping from Go types to SMT sorts, datatype declarations, zero values, type tags.

import (
	"fmt"
	"go/types"
	"sort"
	"strings"
)

type Sort = string

const (
	SInt   Sort = "Int"
	SBool  Sort = "Bool"
	SStr   Sort = "Str"
	SF64   Sort = "F64"
	SSlice Sort = "Slice"
	SIface Sort = "Iface"
	SFunc  Sort = "Func"
)

// Sorts is the registry of sorts/datatypes/literals used by one function's VC.
type Sorts struct {
	structs    map[string]*types.Struct // datatype name -> struct
	structOrd  []string
	structName map[*types.Struct]string
	lits       map[string]string // string literal -> const name
	litOrd     []string
	tags       *TagTable
	usedTags   map[int]bool
	extraDecls []string // uninterpreted functions declared on demand (hoisted to header)
	extraSeen  map[string]bool
	tuples     map[string]bool
}

func newSorts(tags *TagTable) *Sorts {
	return &Sorts{structs: map[string]*types.Struct{}, structName: map[*types.Struct]string{},
		lits: map[string]string{}, tags: tags, usedTags: map[int]bool{}, extraSeen: map[string]bool{}, tuples: map[string]bool{}}
}

// TagTable assigns integer tags to dynamic types stored in interfaces (program-wide, stable by name order).
type TagTable struct {
	byName map[string]int
	names  []string
	types  []types.Type
}

func newTagTable() *TagTable { return &TagTable{byName: map[string]int{}, names: []string{"<nil>"}, types: []types.Type{nil}} }

func (t *TagTable) tagOf(ty types.Type) int {
	n := canonType(types.TypeString(ty, nil))
	if id, ok := t.byName[n]; ok {
		return id
	}
	id := len(t.names)
	t.byName[n] = id
	t.names = append(t.names, n)
	t.types = append(t.types, ty)
	return id
}

func isIntLike(t types.Type) bool {
	b, ok := t.Underlying().(*types.Basic)
	return ok && b.Info()&types.IsInteger != 0
}

func isFloat(t types.Type) bool {
	b, ok := t.Underlying().(*types.Basic)
	return ok && b.Info()&types.IsFloat != 0
}

func isString(t types.Type) bool {
	b, ok := t.Underlying().(*types.Basic)
	return ok && b.Info()&types.IsString != 0
}

func isBool(t types.Type) bool {
	b, ok := t.Underlying().(*types.Basic)
	return ok && b.Info()&types.IsBoolean != 0
}

// intRange returns lo, hi (inclusive) as SMT numerals for an integer type.
func intRange(t types.Type) (string, string) {
	b := t.Underlying().(*types.Basic)
	switch b.Kind() {
	case types.Int8:
		return "(- 128)", "127"
	case types.Int16:
		return "(- 32768)", "32767"
	case types.Int32, types.UntypedRune:
		return "(- 2147483648)", "2147483647"
	case types.Int, types.Int64, types.UntypedInt:
		return "(- 9223372036854775808)", "9223372036854775807"
	case types.Uint8:
		return "0", "255"
	case types.Uint16:
		return "0", "65535"
	case types.Uint32:
		return "0", "4294967295"
	case types.Uint, types.Uint64, types.Uintptr:
		return "0", "18446744073709551615"
	}
	return "(- 9223372036854775808)", "9223372036854775807"
}

func (s *Sorts) structDT(named string, st *types.Struct) string {
	if n, ok := s.structName[st]; ok {
		return n
	}
	name := "S$" + sanitize(named)
	if _, dup := s.structs[name]; dup {
		// same printed name, identical struct (types.Struct pointers can differ across instantiations)
		s.structName[st] = name
		return name
	}
	s.structName[st] = name
	s.structs[name] = st
	// make sure field sorts are registered first (dependency order)
	for i := 0; i < st.NumFields(); i++ {
		s.sortOf(st.Field(i).Type())
	}
	s.structOrd = append(s.structOrd, name)
	return name
}

func sanitize(s string) string {
	var b strings.Builder
	for _, r := range s {
		if r >= 'a' && r <= 'z' || r >= 'A' && r <= 'Z' || r >= '0' && r <= '9' || r == '_' || r == '.' {
			b.WriteRune(r)
		} else if r == '*' {
			b.WriteString("P_")
		} else {
			b.WriteString("_")
		}
	}
	return b.String()
}

func typeKey(t types.Type) string {
	return canonType(types.TypeString(t, func(p *types.Package) string { return p.Name() }))
}

// canonType: `any` and `interface{}` are the same Go type and must get the same tag and store names.
func canonType(s string) string {
	return strings.ReplaceAll(s, "interface{}", "any")
}

// sortOf maps a Go type to its SMT sort.
func (s *Sorts) sortOf(t types.Type) Sort {
	switch u := t.Underlying().(type) {
	case *types.Basic:
		switch {
		case u.Info()&types.IsInteger != 0:
			return SInt
		case u.Info()&types.IsBoolean != 0:
			return SBool
		case u.Info()&types.IsString != 0:
			return SStr
		case u.Info()&types.IsFloat != 0:
			return SF64
		case u.Kind() == types.UntypedNil:
			return SInt
		case u.Kind() == types.UnsafePointer:
			return SInt
		}
		return SInt
	case *types.Pointer, *types.Map, *types.Chan:
		return SInt
	case *types.Slice:
		return SSlice
	case *types.Interface:
		return SIface
	case *types.Signature:
		return SFunc
	case *types.Struct:
		return s.structDT(typeKey(t), u)
	case *types.Array:
		return "(Array Int " + s.sortOf(u.Elem()) + ")"
	case *types.Tuple:
		return "Tuple"
	case *types.TypeParam:
		return SIface
	}
	return SInt
}

func sortKey(k Sort) string {
	r := strings.NewReplacer("(", "", ")", "", " ", "_")
	return r.Replace(k)
}

// zero value of a Go type as SMT term.
func (s *Sorts) zero(t types.Type) string {
	switch u := t.Underlying().(type) {
	case *types.Basic:
		switch {
		case u.Info()&types.IsBoolean != 0:
			return "false"
		case u.Info()&types.IsString != 0:
			return s.lit("")
		case u.Info()&types.IsFloat != 0:
			return "f64.zero"
		}
		return "0"
	case *types.Pointer, *types.Map, *types.Chan:
		return "0"
	case *types.Slice:
		return "nil.slice"
	case *types.Interface:
		return "nil.iface"
	case *types.Signature:
		return "nil.func"
	case *types.Struct:
		name := s.sortOf(t)
		var fs []string
		for i := 0; i < u.NumFields(); i++ {
			fs = append(fs, s.zero(u.Field(i).Type()))
		}
		if len(fs) == 0 {
			return dtCtor(name)
		}
		return sx(dtCtor(name), fs...)
	case *types.Array:
		z := s.zero(u.Elem())
		if z == "0" || z == "false" {
			return "((as const " + s.sortOf(t) + ") " + z + ")"
		}
		name := "zeroval$" + sortKey(s.sortOf(t))
		s.rawDecl(name, "(declare-const "+name+" "+s.sortOf(t)+")\n(assert (forall ((i Int)) (! (= (select "+name+" i) "+z+") :pattern ((select "+name+" i)))))")
		return name
	}
	return "0"
}

func (s *Sorts) lit(v string) string {
	if n, ok := s.lits[v]; ok {
		return n
	}
	n := fmt.Sprintf("lit$%d", len(s.litOrd))
	s.lits[v] = n
	s.litOrd = append(s.litOrd, v)
	return n
}

// field accessor / constructor names for struct datatypes
func dtCtor(sort Sort) string          { return "mk$" + sort[2:] }
func dtAcc(sort Sort, f string) string { return sort[2:] + "$" + sanitize(f) }

func (s *Sorts) declareFun(name, sig string) {
	if s.extraSeen[name] {
		return
	}
	s.extraSeen[name] = true
	s.extraDecls = append(s.extraDecls, "(declare-fun "+name+" "+sig+")")
}

func (s *Sorts) rawDecl(key, decl string) {
	if s.extraSeen[key] {
		return
	}
	s.extraSeen[key] = true
	s.extraDecls = append(s.extraDecls, decl)
}

const maxLen = "140737488355328" // 2^47: address-space bound on slice/string lengths (linux/amd64)

// header emits the fixed prelude plus all datatypes / literals registered so far.
func (s *Sorts) header() string {
	var b strings.Builder
	b.WriteString("(set-option :produce-models true)\n(set-logic ALL)\n")
	b.WriteString("(declare-sort Str 0)\n")
	b.WriteString("(define-sort F64 () (_ FloatingPoint 11 53))\n")
	b.WriteString("(declare-datatypes ((Slice 0)) (((mk-slice (sl.base Int) (sl.off Int) (sl.len Int) (sl.cap Int)))))\n")
	b.WriteString("(declare-datatypes ((Iface 0)) (((mk-iface (if.tag Int) (if.ptr Int)))))\n")
	b.WriteString("(declare-datatypes ((Func 0)) (((mk-func (fn.id Int) (fn.env Int)))))\n")
	b.WriteString("(define-fun nil.slice () Slice (mk-slice 0 0 0 0))\n")
	b.WriteString("(define-fun nil.iface () Iface (mk-iface 0 0))\n")
	b.WriteString("(define-fun nil.func () Func (mk-func 0 0))\n")
	b.WriteString("(define-fun f64.zero () F64 (_ +zero 11 53))\n")
	b.WriteString("(declare-fun sl.ix (Int Int) Int)\n")
	b.WriteString("(assert (forall ((o Int) (i Int)) (! (= (sl.ix o i) (+ o i)) :pattern ((sl.ix o i)))))\n")
	b.WriteString("(declare-fun gs.len (Str) Int)\n")
	b.WriteString("(declare-fun gs.at (Str Int) Int)\n")
	b.WriteString("(declare-fun gs.cat (Str Str) Str)\n")
	b.WriteString("(declare-fun gs.sub (Str Int Int) Str)\n")
	b.WriteString("(declare-fun gs.lt (Str Str) Bool)\n")
	b.WriteString("(assert (forall ((s Str)) (! (and (>= (gs.len s) 0) (<= (gs.len s) " + maxLen + ")) :pattern ((gs.len s)))))\n")
	b.WriteString("(assert (forall ((s Str) (i Int)) (! (and (>= (gs.at s i) 0) (<= (gs.at s i) 255)) :pattern ((gs.at s i)))))\n")
	b.WriteString("(assert (forall ((a Str) (b Str)) (! (= (gs.len (gs.cat a b)) (+ (gs.len a) (gs.len b))) :pattern ((gs.cat a b)))))\n")
	b.WriteString("(assert (forall ((s Str) (i Int) (j Int)) (! (=> (and (<= 0 i) (<= i j) (<= j (gs.len s))) (= (gs.len (gs.sub s i j)) (- j i))) :pattern ((gs.sub s i j)))))\n")
	// Go truncated division and remainder
	b.WriteString("(define-fun go.div ((a Int) (b Int)) Int (ite (>= a 0) (ite (> b 0) (div a b) (- (div a (- b)))) (ite (> b 0) (- (div (- a) b)) (div (- a) (- b)))))\n")
	b.WriteString("(define-fun go.mod ((a Int) (b Int)) Int (- a (* b (go.div a b))))\n")
	for _, name := range s.structOrd {
		st := s.structs[name]
		var fs []string
		for i := 0; i < st.NumFields(); i++ {
			f := st.Field(i)
			fs = append(fs, "("+dtAcc(name, f.Name())+" "+s.sortOf(f.Type())+")")
		}
		if len(fs) == 0 {
			fmt.Fprintf(&b, "(declare-datatypes ((%s 0)) (((%s))))\n", name, dtCtor(name))
		} else {
			fmt.Fprintf(&b, "(declare-datatypes ((%s 0)) (((%s %s))))\n", name, dtCtor(name), strings.Join(fs, " "))
		}
	}
	// string literals: distinct constants with known length and bytes
	if len(s.litOrd) > 0 {
		var names []string
		for i, v := range s.litOrd {
			n := fmt.Sprintf("lit$%d", i)
			names = append(names, n)
			fmt.Fprintf(&b, "(declare-const %s Str) ; %q\n", n, v)
			fmt.Fprintf(&b, "(assert (= (gs.len %s) %d))\n", n, len(v))
			if len(v) <= 16 {
				for j := 0; j < len(v); j++ {
					fmt.Fprintf(&b, "(assert (= (gs.at %s %d) %d))\n", n, j, v[j])
				}
			}
		}
		if len(names) > 1 {
			b.WriteString("(assert (distinct " + strings.Join(names, " ") + "))\n")
		}
		if e, ok := s.lits[""]; ok {
			b.WriteString("(assert (forall ((s Str)) (! (=> (= (gs.len s) 0) (= s " + e + ")) :pattern ((gs.len s)))))\n")
		}
	}
	for _, d := range s.extraDecls {
		b.WriteString(d + "\n")
	}
	return b.String()
}

// implementers of an interface among the tagged types.
func (t *TagTable) implementers(it *types.Interface) []int {
	var out []int
	for id := 1; id < len(t.types); id++ {
		if types.Implements(t.types[id], it) {
			out = append(out, id)
		}
	}
	sort.Ints(out)
	return out
}
