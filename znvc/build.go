package main

import (
	"fmt"
	"go/token"
	"go/types"
	"sort"
	"strings"

	"golang.org/x/tools/go/ssa"
)

// buildVC generates all obligations of one function.
func (eng *Engine) buildVC(fn *ssa.Function) (vc *FnVC) {
	return eng.buildVCWith(fn, eng.specs.Contracts[fnKey(fn)], fnKey(fn))
}

// buildVCWith verifies fn against contract con (its own, or a functype / interface contract it must refine).
func (eng *Engine) buildVCWith(fn *ssa.Function, con *Contract, key string) (vc *FnVC) {
	vc = &FnVC{eng: eng, fn: fn, key: key, con: con, sorts: newSorts(eng.tags), declSeen: map[string]bool{},
		regs: map[ssa.Value]Val{}, tuples: map[ssa.Value][]Val{}, addrs: map[ssa.Value]*Addr{}, exitSt: map[*ssa.BasicBlock]*State{},
		keySort: map[string]Sort{}, notes: map[string]bool{}, occ: map[string]int{}, allocNames: map[string][]*ssa.Alloc{},
		paramVals: map[string]Val{}, objInfo: map[string]*freshObj{}, callOcc: map[string]int{}, trustedUsed: map[string]bool{}, calleesUsed: map[string]bool{},
		rangeIters: map[ssa.Value]*rangeIter{}, witKeys: map[string]bool{}, tablesUsed: map[string]bool{}, tableInfo: map[string]*tableInfo{},
		pins: map[string][][2]string{}, declBySort: map[string][]string{}, ptrCells: map[*ssa.Alloc]*Addr{}, privSlices: map[*ssa.Alloc]bool{}}
	defer func() {
		if r := recover(); r != nil {
			switch e := r.(type) {
			case unsupported:
				vc.unsup = append(vc.unsup, string(e)+" @ "+vc.posString())
			case specFail:
				vc.specErrs = append(vc.specErrs, string(e))
			default:
				panic(r)
			}
		}
	}()
	if fn.Blocks == nil {
		vc.unsup = append(vc.unsup, "no body")
		return
	}
	if fn.TypeParams().Len() > 0 || len(fn.TypeArgs()) > 0 {
		vc.unsup = append(vc.unsup, "generic function")
		return
	}
	// locals by source name
	for _, b := range fn.Blocks {
		for _, ins := range b.Instrs {
			if a, ok := ins.(*ssa.Alloc); ok && a.Comment != "" {
				vc.allocNames[a.Comment] = append(vc.allocNames[a.Comment], a)
			}
		}
	}
	for _, as := range vc.allocNames {
		sort.Slice(as, func(i, j int) bool { return as[i].Pos() < as[j].Pos() })
	}
	// call-site ordinals: k-th call of that name in source order
	{
		type site struct {
			c   *ssa.CallCommon
			pos token.Pos
			blk, idx int
		}
		byName := map[string][]site{}
		for _, b := range fn.Blocks {
			for i, ins := range b.Instrs {
				ci, ok := ins.(ssa.CallInstruction)
				if !ok {
					continue
				}
				c := ci.Common()
				if _, isB := c.Value.(*ssa.Builtin); isB {
					continue
				}
				n := witnessName(c)
				byName[n] = append(byName[n], site{c, ins.Pos(), b.Index, i})
			}
		}
		vc.callOrd = map[*ssa.CallCommon]int{}
		for _, ss := range byName {
			sort.SliceStable(ss, func(i, j int) bool {
				if ss[i].pos != ss[j].pos {
					return ss[i].pos < ss[j].pos
				}
				if ss[i].blk != ss[j].blk {
					return ss[i].blk < ss[j].blk
				}
				return ss[i].idx < ss[j].idx
			})
			for k, s := range ss {
				vc.callOrd[s.c] = k + 1
			}
		}
	}
	// witnesses referenced by the contract
	if vc.con != nil {
		var walk func(e *SpecExpr)
		walk = func(e *SpecExpr) {
			if e == nil {
				return
			}
			if e.Op == "wit" {
				n := e.Name
				if !strings.Contains(n, "#") {
					n += "#1"
				}
				vc.witKeys[n] = true
			}
			for _, a := range e.Args {
				walk(a)
			}
			for _, a := range e.Trig {
				walk(a)
			}
		}
		all := append([]*Clause{}, vc.con.Requires...)
		all = append(all, vc.con.Ensures...)
		all = append(all, vc.con.Panics...)
		for _, cs := range vc.con.Invs {
			all = append(all, cs...)
		}
		for _, cs := range vc.con.Steps {
			all = append(all, cs...)
		}
		for _, cs := range vc.con.ExitSteps {
			all = append(all, cs...)
		}
		for _, c := range all {
			walk(c.Expr)
		}
		for _, ac := range vc.con.Asserts {
			if k := strings.Index(ac.Src, ":"); k >= 0 {
				if e, err := parseSpecExpr(ac.Src[k+1:]); err == nil {
					walk(e)
				}
			}
		}
	}
	st := &State{locals: map[*ssa.Alloc]string{}, vars: map[string]string{}, reach: "true"}
	vc.st = st
	ak := vc.allocKey()
	vc.entryAlloc = vc.cur(ak)
	vc.assume(sx("<=", "0", vc.entryAlloc))
	vc.registerKey("$tick", SInt)
	vc.setRaw("$tick", "0")
	for w := range vc.witKeys {
		vc.registerKey("W$"+w+"$done", SBool)
		vc.setRaw("W$"+w+"$done", "false")
		vc.registerKey("W$"+w+"$count", SInt)
		vc.setRaw("W$"+w+"$count", "0")
		vc.registerKey("W$"+w+"$tick", SInt)
		vc.setRaw("W$"+w+"$tick", "0")
	}
	// parameters
	for _, p := range fn.Params {
		k := vc.sorts.sortOf(p.Type())
		n := "p$" + sanitize(p.Name())
		vc.declare(n, k)
		v := Val{n, p.Type(), k}
		vc.regs[p] = v
		vc.paramVals[p.Name()] = v
		vc.assume(vc.typeFacts(v))
	}
	// default precondition: pointer receivers are non-nil (asserted at every static call and Element invoke)
	if fn.Signature.Recv() != nil && len(fn.Params) > 0 {
		if _, isPtr := fn.Params[0].Type().Underlying().(*types.Pointer); isPtr {
			vc.assume(sNot(sEq(vc.regs[fn.Params[0]].S, "0")))
		}
	}
	if con != nil && con.Kind == "iface" && len(fn.Params) > 0 {
		vc.assumeTypeInv(vc.regs[fn.Params[0]], true) // dispatch boundary
	}
	for _, p := range fn.Params {
		vc.assumeTypeInv(vc.regs[p], false)
	}
	if con != nil && (con.Kind == "functype" || con.Kind == "iface") && len(con.Params) == len(fn.Params) {
		for i, p := range fn.Params {
			vc.paramVals[con.Params[i]] = vc.regs[p]
		}
	}
	// free variables of closures: pointers to captured cells (or captured values)
	for i, fv := range fn.FreeVars {
		k := vc.sorts.sortOf(fv.Type())
		n := fmt.Sprintf("fv$%d$%s", i, sanitize(fv.Name()))
		vc.declare(n, k)
		v := Val{n, fv.Type(), k}
		vc.regs[fv] = v
		vc.assume(vc.typeFacts(v))
		if pt, isPtr := fv.Type().Underlying().(*types.Pointer); isPtr {
			vc.assume(sNot(sEq(n, "0")))
			vc.paramVals["&"+fv.Name()] = v
			// in contracts the captured variable's name denotes its content (at entry)
			a := vc.addrOfRef(n, fv.Type())
			if a.kind == aBox {
				if !closureWrites(fn, fv, 0) && parentAllocStable(fn, i) {
					vc.stableBoxes = append(vc.stableBoxes, stableBox{a.key, n})
				}
				k2 := vc.sorts.sortOf(pt.Elem())
				cv := Val{vc.define("cap_"+fv.Name(), k2, vc.load(a)), pt.Elem(), k2}
				vc.paramVals[fv.Name()] = cv
				if capturedHoldsNewObject(fn, i) {
					// the enclosing function assigns this variable exactly once, with a freshly allocated object, and nobody
					// reassigns it: inside the closure it is that (non-nil) object
					vc.assume(sNot(sEq(cv.S, "0")))
				}
				vc.assume(vc.typeFacts(cv))
				vc.assume(vc.regimeFacts(cv.S, pt.Elem(), 0))
				vc.assumeTypeInv(cv, false)
			}
		}
		vc.freeVars = append(vc.freeVars, fv)
	}
	// result names
	sig := fn.Signature
	for i := 0; i < sig.Results().Len(); i++ {
		n := sig.Results().At(i).Name()
		if n == "" || n == "_" {
			n = fmt.Sprintf("r%d", i)
		}
		vc.resultNames = append(vc.resultNames, n)
	}
	if vc.con != nil && len(vc.con.Results) == sig.Results().Len() && len(vc.con.Results) > 0 {
		vc.resultNames = vc.con.Results
	}
	vc.entry = st // alias until snapshot below
	// preconditions
	env := vc.newEnv(vc.con, fn)
	env.cur = st
	env.old = st
	for n, v := range vc.paramVals {
		env.vars[n] = v
	}
	vc.frameAll = true
	if vc.con != nil {
		for _, rq := range vc.con.Requires {
			t := env.boolExpr(rq.Expr)
			vc.flushSide(env)
			vc.assume(t)
		}
		for _, as := range vc.con.Assumes {
			t := env.boolExpr(as.Expr)
			vc.flushSide(env)
			vc.assume(t)
			vc.trustedUsed["assumed at entry of "+vc.key+": "+as.Src] = true
		}
		if vc.con.Pure {
			vc.frameAll = false
		} else if vc.con.HasMod {
			ts, all := vc.evalTargets(vc.con, env)
			if !all {
				vc.frameAll = false
				vc.frameTargets = ts
			}
		}
		if vc.con.FnDecr != nil {
			vc.registerKey("$decr0", SInt)
			vc.setRaw("$decr0", vc.define("decr0", SInt, env.intExpr(vc.con.FnDecr.Expr)))
		}
	}
	vc.entry = st.clone()
	vc.cover("requires-sat", "entry")
	vc.run()
	return vc
}

// script renders the SMT-LIB query for an obligation.
func (vc *FnVC) script(o *Obligation, getModel bool) string {
	if o.Evaluated {
		return "; decided by direct evaluation: " + o.Name + "\n" + o.Model + "\n"
	}
	var b strings.Builder
	b.WriteString(vc.sorts.header())
	for _, d := range vc.decls {
		b.WriteString(d + "\n")
	}
	for _, a := range vc.axioms {
		b.WriteString(a + "\n")
	}
	for _, l := range vc.body[:o.Prefix] {
		b.WriteString(l + "\n")
	}
	b.WriteString("(assert " + o.Goal + ")\n(check-sat)\n")
	if getModel {
		b.WriteString("(get-model)\n")
	}
	return b.String()
}

// parentAllocStable: free variable i of closure fn is bound (in the enclosing function) to a variable that is assigned
// once and never reassigned by any closure.
func parentAllocStable(fn *ssa.Function, i int) bool {
	p := fn.Parent()
	if p == nil {
		return false
	}
	for _, b := range p.Blocks {
		for _, ins := range b.Instrs {
			if mc, ok := ins.(*ssa.MakeClosure); ok && mc.Fn == fn && i < len(mc.Bindings) {
				switch x := mc.Bindings[i].(type) {
				case *ssa.Alloc:
					return stableCaptured(x)
				case *ssa.FreeVar:
					for j, f := range p.FreeVars {
						if f == x {
							return !closureWrites(p, x, 0) && parentAllocStable(p, j)
						}
					}
				}
			}
		}
	}
	return false
}

// capturedHoldsNewObject: free variable i of closure fn is bound to a variable of the enclosing function that is
// assigned exactly once - with the address of a new object - and that no closure reassigns.
func capturedHoldsNewObject(fn *ssa.Function, i int) bool {
	p := fn.Parent()
	if p == nil || !parentAllocStable(fn, i) {
		return false
	}
	for _, b := range p.Blocks {
		for _, ins := range b.Instrs {
			mc, ok := ins.(*ssa.MakeClosure)
			if !ok || mc.Fn != fn || i >= len(mc.Bindings) {
				continue
			}
			a, ok := mc.Bindings[i].(*ssa.Alloc)
			if !ok {
				// captured through an enclosing closure: the same question one level up
				if pfv, isFV := mc.Bindings[i].(*ssa.FreeVar); isFV {
					for j, f := range p.FreeVars {
						if f == pfv {
							return capturedHoldsNewObject(p, j)
						}
					}
				}
				return false
			}
			n := 0
			newObj := false
			for _, r := range *a.Referrers() {
				if st, ok := r.(*ssa.Store); ok && st.Addr == a {
					n++
					if v, ok := st.Val.(*ssa.Alloc); ok && v.Heap {
						newObj = true
					}
				}
			}
			return n == 1 && newObj
		}
	}
	return false
}
