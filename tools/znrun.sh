#!/bin/bash
# usage: znrun.sh <progs.json> [repo]  -- runs Zn programs through the real interpreter of the working tree
R=${2:-/repo}
T=$(mktemp -d)
printf '{"Replace":{"%s/pkg/exec/zz_znrun_test.go":"/verif/tools/znrun/znrun_test.go"}}' "$R" > $T/ov.json
(cd $R && ZNRUN_IN=$(realpath $1) GOFLAGS=-mod=mod GOPROXY=off GOSUMDB=off GOTOOLCHAIN=local timeout 120 go test -overlay $T/ov.json -vet=off -count=1 -timeout 100s -v -run TestZnvcRun ./pkg/exec 2>&1 | grep -a -E "^ZNRUN|panic:|FAIL|^ok" | head -40)
rm -rf $T
