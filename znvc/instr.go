package main

import (
	"fmt"
	"go/token"
	"go/types"
	"strings"

	"golang.org/x/tools/go/ssa"
)

func (vc *FnVC) exprText(v ssa.Value) string {
	// short, line-independent description of an SSA value for obligation names
	switch x := v.(type) {
	case *ssa.Const:
		if x.Value == nil {
			return "nil"
		}
		return x.Value.ExactString()
	case *ssa.UnOp:
		if x.Op == token.MUL {
			if a, ok := x.X.(*ssa.Alloc); ok && a.Comment != "" {
				return a.Comment
			}
			return vc.exprText(x.X)
		}
		return x.Op.String() + vc.exprText(x.X)
	case *ssa.FieldAddr:
		st := x.X.Type().Underlying().(*types.Pointer).Elem().Underlying().(*types.Struct)
		return vc.exprText(x.X) + "." + st.Field(x.Field).Name()
	case *ssa.Field:
		st := x.X.Type().Underlying().(*types.Struct)
		return vc.exprText(x.X) + "." + st.Field(x.Field).Name()
	case *ssa.IndexAddr:
		return vc.exprText(x.X) + "[" + vc.exprText(x.Index) + "]"
	case *ssa.Index:
		return vc.exprText(x.X) + "[" + vc.exprText(x.Index) + "]"
	case *ssa.BinOp:
		return vc.exprText(x.X) + x.Op.String() + vc.exprText(x.Y)
	case *ssa.Alloc:
		if x.Comment != "" {
			return x.Comment
		}
	case *ssa.Parameter:
		return x.Name()
	case *ssa.Call:
		if f := x.Call.StaticCallee(); f != nil {
			return f.Name() + "()"
		}
		if b, ok := x.Call.Value.(*ssa.Builtin); ok {
			var as []string
			for _, a := range x.Call.Args {
				as = append(as, vc.exprText(a))
			}
			return b.Name() + "(" + strings.Join(as, ",") + ")"
		}
		return "call"
	case *ssa.Slice:
		lo, hi := "", ""
		if x.Low != nil {
			lo = vc.exprText(x.Low)
		}
		if x.High != nil {
			hi = vc.exprText(x.High)
		}
		return vc.exprText(x.X) + "[" + lo + ":" + hi + "]"
	case *ssa.TypeAssert:
		return vc.exprText(x.X) + ".(" + types.TypeString(x.AssertedType, func(p *types.Package) string { return "" }) + ")"
	case *ssa.Extract:
		return vc.exprText(x.Tuple)
	case *ssa.Convert:
		return vc.exprText(x.X)
	case *ssa.ChangeType:
		return vc.exprText(x.X)
	case *ssa.Global:
		return x.Name()
	case *ssa.Lookup:
		return vc.exprText(x.X) + "[" + vc.exprText(x.Index) + "]"
	}
	return v.Name()
}

func (vc *FnVC) instr(ins ssa.Instruction) {
	vc.curIns = ins
	vc.releaseAt(ins)
	if p := ins.Pos(); p.IsValid() {
		vc.curPos = p
	}
	switch x := ins.(type) {
	case *ssa.DebugRef:
		return
	case *ssa.Alloc:
		vc.doAlloc(x)
	case *ssa.FieldAddr:
		a := vc.addrOf(x.X)
		st := x.X.Type().Underlying().(*types.Pointer).Elem()
		s := st.Underlying().(*types.Struct)
		f := s.Field(x.Field)
		if a.kind == aObj {
			vc.nilCheck(a, vc.exprText(x.X))
			if _, isStruct := f.Type().Underlying().(*types.Struct); isStruct {
				// a struct-typed field of a heap object is itself an object (interior pointer): its fields live in
				// the field arrays of its own type, at the injective sub-reference emb(r)
				vc.addrs[x] = &Addr{kind: aObj, ref: vc.embRef(a.stT, x.Field, a.ref), stT: f.Type(), T: f.Type()}
				return
			}
			key, _, ft := vc.fieldKey(a.stT, x.Field)
			vc.addrs[x] = &Addr{kind: aField, key: key, ref: a.ref, rootT: ft, T: ft, fieldInv: vc.fieldInvOf(a.stT, x.Field), ownerT: a.stT}
			return
		}
		na := *a
		na.path = append(append([]pathSel(nil), a.path...), pathSel{field: x.Field, fname: f.Name(), contK: vc.sorts.sortOf(st), contT: st, elemT: f.Type()})
		na.T = f.Type()
		vc.addrs[x] = &na
	case *ssa.IndexAddr:
		idx := vc.val(x.Index)
		switch t := x.X.Type().Underlying().(type) {
		case *types.Slice:
			s := vc.val(x.X)
			vc.assert("index", vc.exprText(x), sAnd(sx("<=", "0", idx.S), sx("<", idx.S, sx("sl.len", s.S))))
			key, _ := vc.memKey(t.Elem())
			abs := vc.define("ix", SInt, sx("sl.ix", sx("sl.off", s.S), idx.S))
			na := &Addr{kind: aMem, key: key, ref: sx("sl.base", s.S), idx: abs, rootT: t.Elem(), T: t.Elem()}
			if oref, oT, ok := vc.fieldOwner(x.X); ok {
				na.ownerRef, na.ownerT = oref, oT
			}
			vc.addrs[x] = na
		case *types.Pointer:
			at := t.Elem().Underlying().(*types.Array)
			a := vc.addrOf(x.X)
			vc.assert("index", vc.exprText(x), sAnd(sx("<=", "0", idx.S), sx("<", idx.S, fmt.Sprint(at.Len()))))
			if a.kind == aMem && a.idx == "" {
				vc.nilCheck(a, vc.exprText(x.X))
				vc.addrs[x] = &Addr{kind: aMem, key: a.key, ref: a.ref, idx: idx.S, rootT: at.Elem(), T: at.Elem()}
				return
			}
			na := *a
			na.path = append(append([]pathSel(nil), a.path...), pathSel{isIdx: true, idx: idx.S, contT: t.Elem(), elemT: at.Elem()})
			na.T = at.Elem()
			vc.addrs[x] = &na
		default:
			vc.fail("IndexAddr on %s", x.X.Type())
		}
	case *ssa.Field:
		s := vc.val(x.X)
		st := x.X.Type().Underlying().(*types.Struct)
		vc.setReg(x, sx(dtAcc(s.K, st.Field(x.Field).Name()), s.S))
	case *ssa.Index:
		idx := vc.val(x.Index)
		s := vc.val(x.X)
		switch t := x.X.Type().Underlying().(type) {
		case *types.Array:
			vc.assert("index", vc.exprText(x), sAnd(sx("<=", "0", idx.S), sx("<", idx.S, fmt.Sprint(t.Len()))))
			vc.setReg(x, sSelect(s.S, idx.S))
		case *types.Basic: // string
			vc.assert("index", vc.exprText(x), sAnd(sx("<=", "0", idx.S), sx("<", idx.S, sx("gs.len", s.S))))
			vc.setReg(x, sx("gs.at", s.S, idx.S))
		default:
			vc.fail("Index on %s", x.X.Type())
		}
	case *ssa.UnOp:
		vc.doUnOp(x)
	case *ssa.Store:
		a := vc.addrOf(x.Addr)
		if a.kind == aBox {
			vc.nilCheck(a, vc.exprText(x.Addr))
		}
		if va, isAddr := vc.addrs[x.Val]; isAddr && a.kind == aLocal && len(a.path) == 0 && !isPlainRef(va) {
			// a local pointer variable holding the address of a slice element / field (never escapes)
			if !singleStore(a.alloc) {
				vc.fail("local pointer variable %s assigned more than once", hintName(a.alloc))
			}
			vc.ptrCells[a.alloc] = va
			return
		}
		v := vc.val(x.Val)
		vc.store(a, v.S)
	case *ssa.BinOp:
		vc.doBinOp(x)
	case *ssa.Phi:
		// handled on edges
	case *ssa.Call:
		vc.doCall(x, &x.Call)
	case *ssa.MakeInterface:
		vc.doMakeInterface(x)
	case *ssa.ChangeInterface:
		v := vc.val(x.X)
		vc.regs[x] = Val{v.S, x.Type(), v.K}
	case *ssa.ChangeType:
		v := vc.val(x.X)
		vc.regs[x] = Val{v.S, x.Type(), v.K}
	case *ssa.Convert:
		vc.doConvert(x)
	case *ssa.TypeAssert:
		vc.doTypeAssert(x)
	case *ssa.Extract:
		tup, ok := vc.tuples[x.Tuple]
		if !ok {
			vc.fail("extract from unknown tuple %s", x.Tuple.Name())
		}
		v := tup[x.Index]
		vc.regs[x] = Val{v.S, x.Type(), v.K}
	case *ssa.MakeSlice:
		vc.doMakeSlice(x)
	case *ssa.MakeMap:
		mt := x.Type().Underlying().(*types.Map)
		dom, val, ln, ks, vs := vc.mapKeys(mt)
		r := vc.newRef("map")
		vc.set(dom, sStore(vc.cur(dom), r, "((as const (Array "+ks+" Bool)) false)"))
		vc.set(val, sStore(vc.cur(val), r, vc.zeroArray(ks, vs, vc.sorts.zero(mt.Elem()))))
		vc.set(ln, sStore(vc.cur(ln), r, "0"))
		vc.regs[x] = Val{r, x.Type(), SInt}
	case *ssa.Slice:
		vc.doSlice(x)
	case *ssa.Lookup:
		vc.doLookup(x)
	case *ssa.MapUpdate:
		vc.doMapUpdate(x)
	case *ssa.Range:
		vc.doRange(x)
	case *ssa.Next:
		vc.doNext(x)
	case *ssa.MakeClosure:
		vc.doMakeClosure(x)
	case *ssa.Defer:
		vc.defers = append(vc.defers, x)
	case *ssa.RunDefers:
		vc.doRunDefers(x)
	case *ssa.Return, *ssa.If, *ssa.Jump, *ssa.Panic:
		// terminators handled by the CFG driver
	case *ssa.Go, *ssa.Select, *ssa.Send, *ssa.MakeChan:
		vc.fail("concurrency instruction %T", ins)
	default:
		vc.fail("unsupported instruction %T", ins)
	}
}

func (vc *FnVC) doAlloc(x *ssa.Alloc) {
	et := x.Type().(*types.Pointer).Elem()
	if !x.Heap {
		vc.setLocal(x, vc.sorts.zero(et))
		vc.addrs[x] = &Addr{kind: aLocal, alloc: x, rootT: et, T: et}
		if privateSlice(x) {
			vc.privSlices[x] = true
		}
		return
	}
	r := vc.newRef(hintName(x))
	hasInv := false
	switch u := et.Underlying().(type) {
	case *types.Struct:
		for i := 0; i < u.NumFields(); i++ {
			if _, isStruct := u.Field(i).Type().Underlying().(*types.Struct); isStruct {
				vc.store(&Addr{kind: aObj, ref: vc.embRef(et, i, r), stT: u.Field(i).Type(), T: u.Field(i).Type()}, vc.sorts.zero(u.Field(i).Type()))
				continue
			}
			key, _, ft := vc.fieldKey(et, i)
			vc.set(key, sStore(vc.cur(key), r, vc.sorts.zero(ft)))
			if vc.fieldInvOf(et, i) == "nonnil" {
				hasInv = true
			}
		}
		if hasInv && vc.scratch == 0 {
			if vc.inLoop(x.Block()) {
				for i := 0; i < u.NumFields(); i++ {
					if vc.fieldInvOf(et, i) == "nonnil" && !allocInitialises(x, i) {
						key, _, _ := vc.fieldKey(et, i)
						vc.assert("field-invariant", key+" initialised at allocation", "false")
					}
				}
			} else {
				sites, rets := vc.eng.escapeSites(x)
				vc.freshObjs = append(vc.freshObjs, freshObj{r, et, x.Block(), sites, rets})
			}
		}
		if x.Heap && vc.scratch == 0 {
			sites, rets := vc.eng.escapeSites(x)
			vc.objInfo[r] = &freshObj{r, et, x.Block(), sites, rets}
			if kept := vc.eng.keptFields(x); len(kept) > 0 {
				for _, i := range kept {
					key, _, _ := vc.fieldKey(et, i)
					vc.ownedFields = append(vc.ownedFields, stableBox{key, r})
				}
			}
		}
		vc.addrs[x] = &Addr{kind: aObj, ref: r, stT: et, T: et}
	case *types.Array:
		key, es := vc.memKey(u.Elem())
		vc.set(key, sStore(vc.cur(key), r, vc.zeroArray("Int", es, vc.sorts.zero(u.Elem()))))
		vc.addrs[x] = &Addr{kind: aMem, key: key, ref: r, idx: "", rootT: u.Elem(), T: et}
	default:
		key, _ := vc.boxKey(et)
		vc.set(key, sStore(vc.cur(key), r, vc.sorts.zero(et)))
		vc.addrs[x] = &Addr{kind: aBox, key: key, ref: r, rootT: et, T: et}
		if stableCaptured(x) {
			vc.stableBoxes = append(vc.stableBoxes, stableBox{key, r})
		}
	}
	vc.regs[x] = Val{r, x.Type(), SInt}
}

func hintName(x *ssa.Alloc) string {
	if x.Comment != "" {
		return x.Comment
	}
	return x.Name()
}

func (vc *FnVC) doUnOp(x *ssa.UnOp) {
	switch x.Op {
	case token.MUL:
		if al, ok := x.X.(*ssa.Alloc); ok {
			if pa, ok := vc.ptrCells[al]; ok {
				vc.addrs[x] = pa
				return
			}
		}
		a := vc.addrOf(x.X)
		if a.kind == aObj || a.kind == aBox || a.kind == aMem && a.idx == "" {
			vc.nilCheck(a, vc.exprText(x.X))
		}
		t := vc.load(a)
		if _, isTuple := x.Type().(*types.Tuple); isTuple {
			vc.fail("load of tuple")
		}
		r := vc.setReg(x, t)
		if a.kind != aLocal {
			vc.assume(vc.typeFacts(r))
			if a.key != "" && vc.entry != nil && vc.entry != vc.st && vc.curIn(vc.entry, a.key) == vc.cur(a.key) {
				// the store has not been written since entry: what it holds was allocated before entry
				vc.assume(vc.typeFactsIn(vc.entry, r))
			}
			if a.fieldInv != "nullable" {
				vc.assume(vc.regimeFacts(r.S, x.Type(), 0))
			} else if r.K == SIface {
				// a nullable interface field: nil, or a non-nil pointer
				vc.assume(sOr(sEq(sx("if.tag", r.S), "0"), sNot(sEq(sx("if.ptr", r.S), "0"))))
			}
			if a.kind == aField && a.fieldInv == "nonnil" && len(a.path) == 0 {
				vc.assume(nonNilTerm(r.S, r.K))
			}
			if a.kind == aMem && len(a.path) == 0 && a.idx != "" && vc.eng.specs.FieldInvs["elem:"+strings.TrimPrefix(a.key, "Mem$")] == "nonnil" {
				vc.assume(nonNilTerm(r.S, r.K))
			}
			vc.assumeTypeInv(r, false)
			if a.kind == aGlobal && len(a.path) == 0 && vc.eng.specs.FieldInvs["global:"+strings.TrimPrefix(a.key, "G$")] != "" {
				vc.assume(nonNilTerm(r.S, r.K))
			}
		}
	case token.NOT:
		v := vc.val(x.X)
		vc.setReg(x, sNot(v.S))
	case token.SUB:
		v := vc.val(x.X)
		if isFloat(x.Type()) {
			vc.setReg(x, sx("fp.neg", v.S))
			return
		}
		r := vc.setReg(x, sx("-", v.S))
		vc.rangeAssert("overflow", "-"+vc.exprText(x.X), r.S, x.Type())
	case token.XOR:
		v := vc.val(x.X)
		vc.sorts.declareFun("bit.not", "(Int) Int")
		vc.setReg(x, sx("bit.not", v.S))
	default:
		vc.fail("unary op %s", x.Op)
	}
}

func (vc *FnVC) doBinOp(x *ssa.BinOp) {
	a, b := vc.val(x.X), vc.val(x.Y)
	t := x.X.Type()
	text := vc.exprText(x)
	switch {
	case isIntLike(t) && isIntLike(x.Y.Type()) || isIntLike(t) && (x.Op == token.SHL || x.Op == token.SHR):
		switch x.Op {
		case token.ADD, token.SUB, token.MUL:
			op := map[token.Token]string{token.ADD: "+", token.SUB: "-", token.MUL: "*"}[x.Op]
			if bk := x.Type().Underlying().(*types.Basic).Kind(); (bk == types.Int || bk == types.Int64) && x.Op != token.MUL {
				// exact two's-complement semantics: a single wrap by 2^64 (|a±b| < 2^64)
				raw := vc.define(x.Name()+"raw", SInt, sx(op, a.S, b.S))
				vc.setReg(x, sIte(sx(">", raw, "9223372036854775807"), sx("-", raw, "18446744073709551616"),
					sIte(sx("<", raw, "(- 9223372036854775808)"), sx("+", raw, "18446744073709551616"), raw)))
				break
			}
			r := vc.setReg(x, sx(op, a.S, b.S))
			vc.rangeAssert("overflow", text, r.S, x.Type())
		case token.QUO:
			vc.assert("div-zero", text, sNot(sEq(b.S, "0")))
			r := vc.setReg(x, sx("go.div", a.S, b.S))
			lo, _ := intRange(x.Type())
			if lo != "0" {
				vc.assert("overflow", text, sNot(sAnd(sEq(a.S, lo), sEq(b.S, "(- 1)"))))
			}
			_ = r
		case token.REM:
			vc.assert("div-zero", text, sNot(sEq(b.S, "0")))
			vc.setReg(x, sx("go.mod", a.S, b.S))
		case token.EQL:
			vc.setReg(x, sEq(a.S, b.S))
		case token.NEQ:
			vc.setReg(x, sNot(sEq(a.S, b.S)))
		case token.LSS:
			vc.setReg(x, sx("<", a.S, b.S))
		case token.LEQ:
			vc.setReg(x, sx("<=", a.S, b.S))
		case token.GTR:
			vc.setReg(x, sx(">", a.S, b.S))
		case token.GEQ:
			vc.setReg(x, sx(">=", a.S, b.S))
		case token.AND, token.OR, token.XOR, token.SHL, token.SHR, token.AND_NOT:
			name := map[token.Token]string{token.AND: "bit.and", token.OR: "bit.or", token.XOR: "bit.xor", token.SHL: "bit.shl", token.SHR: "bit.shr", token.AND_NOT: "bit.andnot"}[x.Op]
			vc.sorts.declareFun(name, "(Int Int) Int")
			r := vc.setReg(x, sx(name, a.S, b.S))
			vc.bitFacts(x, r, a, b)
		default:
			vc.fail("int binop %s", x.Op)
		}
	case isFloat(t):
		switch x.Op {
		case token.ADD:
			vc.setReg(x, sx("fp.add", "RNE", a.S, b.S))
		case token.SUB:
			vc.setReg(x, sx("fp.sub", "RNE", a.S, b.S))
		case token.MUL:
			vc.setReg(x, sx("fp.mul", "RNE", a.S, b.S))
		case token.QUO:
			vc.setReg(x, sx("fp.div", "RNE", a.S, b.S))
		case token.EQL:
			vc.setReg(x, sx("fp.eq", a.S, b.S))
		case token.NEQ:
			vc.setReg(x, sNot(sx("fp.eq", a.S, b.S)))
		case token.LSS:
			vc.setReg(x, sx("fp.lt", a.S, b.S))
		case token.LEQ:
			vc.setReg(x, sx("fp.leq", a.S, b.S))
		case token.GTR:
			vc.setReg(x, sx("fp.gt", a.S, b.S))
		case token.GEQ:
			vc.setReg(x, sx("fp.geq", a.S, b.S))
		default:
			vc.fail("float binop %s", x.Op)
		}
	case isString(t):
		switch x.Op {
		case token.ADD:
			vc.setReg(x, sx("gs.cat", a.S, b.S))
		case token.EQL:
			vc.setReg(x, sEq(a.S, b.S))
		case token.NEQ:
			vc.setReg(x, sNot(sEq(a.S, b.S)))
		case token.LSS:
			vc.setReg(x, sx("gs.lt", a.S, b.S))
		case token.GTR:
			vc.setReg(x, sx("gs.lt", b.S, a.S))
		case token.LEQ:
			vc.setReg(x, sNot(sx("gs.lt", b.S, a.S)))
		case token.GEQ:
			vc.setReg(x, sNot(sx("gs.lt", a.S, b.S)))
		default:
			vc.fail("string binop %s", x.Op)
		}
	case isBool(t):
		switch x.Op {
		case token.EQL:
			vc.setReg(x, sEq(a.S, b.S))
		case token.NEQ:
			vc.setReg(x, sNot(sEq(a.S, b.S)))
		case token.AND:
			vc.setReg(x, sAnd(a.S, b.S))
		case token.OR:
			vc.setReg(x, sOr(a.S, b.S))
		default:
			vc.fail("bool binop %s", x.Op)
		}
	default:
		// pointers, interfaces, maps, funcs, slices(nil compare), structs
		eq := ""
		switch t.Underlying().(type) {
		case *types.Slice:
			// only comparison with nil is legal
			other := b
			if c, ok := x.X.(*ssa.Const); ok && c.Value == nil {
				other = b
			} else {
				other = a
			}
			eq = sEq(sx("sl.base", other.S), "0")
			eq = sAnd(eq, sEq(sx("sl.cap", other.S), "0"))
			// a nil slice has base 0; non-nil empty slices have a non-zero base in this model
			eq = sEq(sx("sl.base", other.S), "0")
		case *types.Signature:
			other := a
			if c, ok := x.X.(*ssa.Const); ok && c.Value == nil {
				other = b
			}
			eq = sEq(sx("fn.id", other.S), "0")
		default:
			if a.K != b.K {
				// interface compared with concrete: SSA inserts MakeInterface, so sorts should agree
				vc.fail("comparison of different sorts %s %s", a.K, b.K)
			}
			eq = sEq(a.S, b.S)
		}
		switch x.Op {
		case token.EQL:
			vc.setReg(x, eq)
		case token.NEQ:
			vc.setReg(x, sNot(eq))
		default:
			vc.fail("binop %s on %s", x.Op, t)
		}
	}
}

// bitFacts adds sound facts about bit operations with constant operands.
func (vc *FnVC) bitFacts(x *ssa.BinOp, r, a, b Val) {
	c, ok := x.Y.(*ssa.Const)
	if !ok {
		return
	}
	n, exact := c.Int64(), true
	_ = exact
	switch x.Op {
	case token.AND:
		if n >= 0 {
			vc.assume(sAnd(sx("<=", "0", r.S), sx("<=", r.S, sInt(n))))
			// mask of the form 2^k-1
			if n&(n+1) == 0 {
				vc.assume(sImp(sx(">=", a.S, "0"), sEq(r.S, sx("mod", a.S, sInt(n+1)))))
			}
		}
	case token.SHR:
		if n >= 0 && n < 62 {
			vc.assume(sImp(sx(">=", a.S, "0"), sEq(r.S, sx("div", a.S, sInt(int64(1)<<uint(n))))))
		}
	case token.SHL:
		if n >= 0 && n < 62 {
			vc.assume(sEq(r.S, sx("*", a.S, sInt(int64(1)<<uint(n)))))
			vc.rangeAssert("overflow", vc.exprText(x), r.S, x.Type())
		}
	}
}

func (vc *FnVC) boxFuns(t types.Type) (box, unbox string) {
	k := vc.sorts.sortOf(t)
	box = "box$" + sortKey(k)
	unbox = "unbox$" + sortKey(k)
	vc.sorts.declareFun(box, "("+k+") Int")
	vc.sorts.declareFun(unbox, "(Int) "+k)
	vc.sorts.rawDecl("boxax$"+sortKey(k), "(assert (forall ((v "+k+")) (! (and (= ("+unbox+" ("+box+" v)) v) (< ("+box+" v) 0)) :pattern (("+box+" v)))))")
	return
}

func isPointerLike(t types.Type) bool {
	switch t.Underlying().(type) {
	case *types.Pointer, *types.Map, *types.Chan:
		return true
	}
	return false
}

func (vc *FnVC) doMakeInterface(x *ssa.MakeInterface) {
	v := vc.val(x.X)
	tag := vc.eng.tags.tagOf(x.X.Type())
	vc.sorts.usedTags[tag] = true
	if isPointerLike(x.X.Type()) {
		if isErrorType(x.Type()) {
			vc.assert("error-invariant", "pointer turned into an error is non-nil", sNot(sEq(v.S, "0")))
		}
		if vc.isImmutableIface(x.Type()) {
			vc.assert("field-invariant", "syntax-tree node turned into an interface is non-nil", sNot(sEq(v.S, "0")))
		}
		vc.setReg(x, sx("mk-iface", fmt.Sprint(tag), v.S))
		return
	}
	box, _ := vc.boxFuns(x.X.Type())
	vc.setReg(x, sx("mk-iface", fmt.Sprint(tag), sx(box, v.S)))
}

func (vc *FnVC) tagTest(iface string, t types.Type) string {
	if it, ok := t.Underlying().(*types.Interface); ok {
		if it.NumMethods() == 0 {
			return sNot(sEq(sx("if.tag", iface), "0"))
		}
		vc.eng.ensureAllTags()
		var ds []string
		for _, id := range vc.eng.tags.implementers(it) {
			ds = append(ds, sEq(sx("if.tag", iface), fmt.Sprint(id)))
		}
		return sOr(ds...)
	}
	tag := vc.eng.tags.tagOf(t)
	return sEq(sx("if.tag", iface), fmt.Sprint(tag))
}

func (vc *FnVC) unboxIface(iface string, t types.Type) string {
	if _, ok := t.Underlying().(*types.Interface); ok {
		return iface
	}
	if isPointerLike(t) {
		return sx("if.ptr", iface)
	}
	_, unbox := vc.boxFuns(t)
	return sx(unbox, sx("if.ptr", iface))
}

func (vc *FnVC) doTypeAssert(x *ssa.TypeAssert) {
	v := vc.val(x.X)
	test := vc.tagTest(v.S, x.AssertedType)
	payload := vc.unboxIface(v.S, x.AssertedType)
	k := vc.sorts.sortOf(x.AssertedType)
	if x.CommaOk {
		okv := vc.define(x.Name()+"ok", SBool, test)
		res := vc.define(x.Name()+"v", k, sIte(okv, payload, vc.sorts.zero(x.AssertedType)))
		vc.tuples[x] = []Val{{res, x.AssertedType, k}, {okv, types.Typ[types.Bool], SBool}}
		vc.assume(vc.typeFacts(Val{res, x.AssertedType, k}))
		vc.assumeTypeInv(Val{res, x.AssertedType, k}, false)
		return
	}
	vc.assert("type-assert", vc.exprText(x), test)
	r := vc.setReg(x, payload)
	vc.assume(vc.typeFacts(r))
	vc.assumeTypeInv(r, false)
}

func (vc *FnVC) doConvert(x *ssa.Convert) {
	v := vc.val(x.X)
	from, to := x.X.Type(), x.Type()
	switch {
	case isIntLike(from) && isIntLike(to):
		r := vc.setReg(x, v.S)
		flo, fhi := intRange(from)
		tlo, thi := intRange(to)
		if flo != tlo || fhi != thi {
			vc.rangeAssert("conv-range", types.TypeString(to, nil)+"("+vc.exprText(x.X)+")", r.S, to)
		}
	case isIntLike(from) && isFloat(to):
		vc.setReg(x, sx("(_ to_fp 11 53)", "RNE", sx("to_real", v.S)))
	case isFloat(from) && isFloat(to):
		vc.regs[x] = Val{v.S, to, SF64}
	case isFloat(from) && isIntLike(to):
		// Go leaves the result implementation-defined when the truncated value does not fit; it never panics.
		// linux/amd64 (CVTTSD2SQ): NaN, +-Inf and out-of-range values give the minimum integer ("integer indefinite").
		vc.sorts.declareFun("f64.toint", "(F64) Int")
		lo, hi := intRange(to)
		tr := sx("fp.to_real", sx("fp.roundToIntegral", "RTZ", v.S))
		ok := sAnd(sNot(sx("fp.isNaN", v.S)), sNot(sx("fp.isInfinite", v.S)), sx("<=", sx("to_real", lo), tr), sx("<=", tr, sx("to_real", hi)))
		if b := to.Underlying().(*types.Basic); b.Kind() != types.Int && b.Kind() != types.Int64 {
			vc.fail("float to %s conversion", to)
		}
		vc.note("float64->int conversions follow linux/amd64: out-of-range, NaN and Inf give math.MinInt64")
		r := vc.setReg(x, sx("f64.toint", v.S))
		vc.assume(sIte(ok, sEq(sx("to_real", r.S), tr), sEq(r.S, lo)))
		vc.assume(vc.typeFacts(r))
	case isString(to) && isIntLike(from):
		vc.sorts.declareFun("gs.fromRune", "(Int) Str")
		vc.setReg(x, sx("gs.fromRune", v.S))
	case isString(to):
		// []byte / []rune -> string
		st, ok := from.Underlying().(*types.Slice)
		if !ok {
			vc.fail("convert %s to string", from)
		}
		_, es := vc.memKey(st.Elem())
		key, _ := vc.memKey(st.Elem())
		name := "gs.fromBytes"
		if b, ok := st.Elem().Underlying().(*types.Basic); ok && b.Kind() == types.Int32 {
			name = "gs.fromRunes"
		}
		vc.sorts.declareFun(name, "((Array Int "+es+") Int Int) Str")
		arrT := sSelect(vc.cur(key), sx("sl.base", v.S))
		r := vc.setReg(x, sx(name, arrT, sx("sl.off", v.S), sx("sl.len", v.S)))
		if name == "gs.fromBytes" {
			vc.assume(sEq(sx("gs.len", r.S), sx("sl.len", v.S)))
		} else {
			vc.assume(sAnd(sx("<=", sx("sl.len", v.S), sx("gs.len", r.S)), sx("<=", sx("gs.len", r.S), sx("*", "4", sx("sl.len", v.S)))))
			// string(rs) of scalar values (no surrogates, in range) has exactly those characters: []rune(string(rs)) == rs
			vc.declareRuneFns()
			q := vc.fresh("rq", SInt)
			_ = q
			valid := func(t string) string {
				return sAnd(sx("<=", "0", t), sx("<=", t, "1114111"), sNot(sAnd(sx("<=", "55296", t), sx("<=", t, "57343"))))
			}
			elem := func(i string) string { return sSelect(arrT, sx("sl.ix", sx("sl.off", v.S), i)) }
			allValid := fmt.Sprintf("(forall ((j Int)) (=> (and (<= 0 j) (< j %s)) %s))", sx("sl.len", v.S), valid(elem("j")))
			same := fmt.Sprintf("(forall ((k Int)) (! (=> (and (<= 0 k) (< k %s)) (= (gs.runeAtIdx %s k) %s)) :pattern ((gs.runeAtIdx %s k))))", sx("sl.len", v.S), r.S, elem("k"), r.S)
			vc.assume(sImp(allValid, sAnd(sEq(sx("gs.runeCount", r.S), sx("sl.len", v.S)), same)))
		}
	case isString(from):
		st, ok := to.Underlying().(*types.Slice)
		if !ok {
			vc.fail("convert string to %s", to)
		}
		key, es := vc.memKey(st.Elem())
		base := vc.newRef("strconv")
		isRunes := false
		if b, ok := st.Elem().Underlying().(*types.Basic); ok && b.Kind() == types.Int32 {
			isRunes = true
		}
		arr := vc.fresh("conv", "(Array Int "+es+")")
		ln := vc.fresh("convlen", SInt)
		if isRunes {
			vc.declareRuneFns()
			vc.assume(sAnd(sEq(ln, sx("gs.runeCount", v.S)), sx("<=", "0", ln), sx("<=", ln, sx("gs.len", v.S)),
				sImp(sx(">", sx("gs.len", v.S), "0"), sx(">", ln, "0")),
				sx("<=", sx("gs.len", v.S), sx("*", "4", ln))))
			// decoding yields scalar values only (invalid bytes become U+FFFD): never a surrogate, never out of range
			vc.body = append(vc.body, fmt.Sprintf("(assert (forall ((i Int)) (! (and (= (select %s i) (gs.runeAtIdx %s i)) (<= 0 (select %s i)) (<= (select %s i) 1114111) (not (and (<= 55296 (select %s i)) (<= (select %s i) 57343)))) :pattern ((select %s i)))))", arr, v.S, arr, arr, arr, arr, arr))
		} else {
			vc.assume(sEq(ln, sx("gs.len", v.S)))
			vc.body = append(vc.body, fmt.Sprintf("(assert (forall ((i Int)) (! (= (select %s i) (gs.at %s i)) :pattern ((select %s i)))))", arr, v.S, arr))
		}
		vc.set(key, sStore(vc.cur(key), base, arr))
		vc.setReg(x, sx("mk-slice", base, "0", ln, ln))
	case isPointerLike(from) && isPointerLike(to):
		vc.regs[x] = Val{v.S, to, v.K}
	default:
		vc.fail("convert %s -> %s", from, to)
	}
}

func (vc *FnVC) doMakeSlice(x *ssa.MakeSlice) {
	st := x.Type().Underlying().(*types.Slice)
	ln, cp := vc.val(x.Len), vc.val(x.Cap)
	vc.assert("makeslice", vc.exprText(x.Len), sAnd(sx("<=", "0", ln.S), sx("<=", ln.S, cp.S), sx("<=", cp.S, maxLen)))
	key, es := vc.memKey(st.Elem())
	base := vc.newRef("mk")
	vc.set(key, sStore(vc.cur(key), base, vc.zeroArray("Int", es, vc.sorts.zero(st.Elem()))))
	vc.setReg(x, sx("mk-slice", base, "0", ln.S, cp.S))
}

func (vc *FnVC) doSlice(x *ssa.Slice) {
	text := vc.exprText(x)
	switch t := x.X.Type().Underlying().(type) {
	case *types.Slice:
		s := vc.val(x.X)
		lo := "0"
		if x.Low != nil {
			lo = vc.val(x.Low).S
		}
		hi := sx("sl.len", s.S)
		if x.High != nil {
			hi = vc.val(x.High).S
		}
		mx := sx("sl.cap", s.S)
		if x.Max != nil {
			mx = vc.val(x.Max).S
			vc.assert("slice-bounds", text, sAnd(sx("<=", "0", lo), sx("<=", lo, hi), sx("<=", hi, mx), sx("<=", mx, sx("sl.cap", s.S))))
		} else {
			vc.assert("slice-bounds", text, sAnd(sx("<=", "0", lo), sx("<=", lo, hi), sx("<=", hi, sx("sl.cap", s.S))))
		}
		// Go: slicing a nil slice gives nil; otherwise same base
		vc.setReg(x, sx("mk-slice", sx("sl.base", s.S), sx("+", sx("sl.off", s.S), lo), sx("-", hi, lo), sx("-", mx, lo)))
	case *types.Basic: // string
		s := vc.val(x.X)
		lo := "0"
		if x.Low != nil {
			lo = vc.val(x.Low).S
		}
		hi := sx("gs.len", s.S)
		if x.High != nil {
			hi = vc.val(x.High).S
		}
		vc.assert("slice-bounds", text, sAnd(sx("<=", "0", lo), sx("<=", lo, hi), sx("<=", hi, sx("gs.len", s.S))))
		vc.setReg(x, sx("gs.sub", s.S, lo, hi))
	case *types.Pointer:
		at := t.Elem().Underlying().(*types.Array)
		a := vc.addrOf(x.X)
		if !(a.kind == aMem && a.idx == "") {
			vc.fail("slice of non-heap array")
		}
		vc.nilCheck(a, vc.exprText(x.X))
		n := fmt.Sprint(at.Len())
		lo := "0"
		if x.Low != nil {
			lo = vc.val(x.Low).S
		}
		hi := n
		if x.High != nil {
			hi = vc.val(x.High).S
		}
		if x.Low != nil || x.High != nil {
			vc.assert("slice-bounds", text, sAnd(sx("<=", "0", lo), sx("<=", lo, hi), sx("<=", hi, n)))
		}
		vc.setReg(x, sx("mk-slice", a.ref, lo, sx("-", hi, lo), sx("-", n, lo)))
	default:
		vc.fail("slice of %s", x.X.Type())
	}
}

func (vc *FnVC) doLookup(x *ssa.Lookup) {
	switch t := x.X.Type().Underlying().(type) {
	case *types.Map:
		m := vc.val(x.X)
		k := vc.val(x.Index)
		dom, val, _, _, _ := vc.mapKeys(t)
		in := vc.define(x.Name()+"in", SBool, sAnd(sNot(sEq(m.S, "0")), sSelect(sSelect(vc.cur(dom), m.S), k.S)))
		vs := vc.sorts.sortOf(t.Elem())
		v := vc.define(x.Name()+"v", vs, sIte(in, sSelect(sSelect(vc.cur(val), m.S), k.S), vc.sorts.zero(t.Elem())))
		rv := Val{v, t.Elem(), vs}
		vc.assume(sImp(in, sAnd(vc.typeFacts(rv), vc.regimeFacts(rv.S, t.Elem(), 0))))
		if x.CommaOk {
			vc.tuples[x] = []Val{rv, {in, types.Typ[types.Bool], SBool}}
		} else {
			vc.regs[x] = rv
		}
	case *types.Basic:
		s := vc.val(x.X)
		idx := vc.val(x.Index)
		vc.assert("index", vc.exprText(x), sAnd(sx("<=", "0", idx.S), sx("<", idx.S, sx("gs.len", s.S))))
		vc.setReg(x, sx("gs.at", s.S, idx.S))
	default:
		vc.fail("lookup on %s", x.X.Type())
	}
}

func (vc *FnVC) doMapUpdate(x *ssa.MapUpdate) {
	t := x.Map.Type().Underlying().(*types.Map)
	m := vc.val(x.Map)
	k := vc.val(x.Key)
	v := vc.val(x.Value)
	dom, val, ln, _, _ := vc.mapKeys(t)
	vc.assert("nil-map", vc.exprText(x.Map), sNot(sEq(m.S, "0")))
	if oref, oT, ok := vc.fieldOwner(x.Map); ok {
		vc.touchObj(oref, oT)
	}
	if f := vc.regimeFacts(v.S, t.Elem(), 0); f != "true" {
		vc.assert("elem-invariant", "stored Element is non-nil", f)
	}
	vc.frameCheck(dom, m.S)
	d := sSelect(vc.cur(dom), m.S)
	was := vc.define("was", SBool, sSelect(d, k.S))
	vc.set(ln, sStore(vc.cur(ln), m.S, sIte(was, sSelect(vc.cur(ln), m.S), sx("+", sSelect(vc.cur(ln), m.S), "1"))))
	vc.set(dom, sStore(vc.cur(dom), m.S, sStore(d, k.S, "true")))
	vc.set(val, sStore(vc.cur(val), m.S, sStore(sSelect(vc.cur(val), m.S), k.S, v.S)))
}

func (vc *FnVC) doMapDelete(mv, kv ssa.Value) {
	t := mv.Type().Underlying().(*types.Map)
	m := vc.val(mv)
	k := vc.val(kv)
	if oref, oT, ok := vc.fieldOwner(mv); ok {
		vc.touchObj(oref, oT)
	}
	dom, _, ln, _, _ := vc.mapKeys(t)
	// delete on nil map is a no-op
	d := sSelect(vc.cur(dom), m.S)
	was := vc.define("was", SBool, sAnd(sNot(sEq(m.S, "0")), sSelect(d, k.S)))
	vc.frameCheck(dom, m.S)
	vc.set(ln, sStore(vc.cur(ln), m.S, sIte(was, sx("-", sSelect(vc.cur(ln), m.S), "1"), sSelect(vc.cur(ln), m.S))))
	vc.set(dom, sIte(sEq(m.S, "0"), vc.cur(dom), sStore(vc.cur(dom), m.S, sStore(d, k.S, "false"))))
}

func (vc *FnVC) doRange(x *ssa.Range) {
	switch t := x.X.Type().Underlying().(type) {
	case *types.Map:
		m := vc.val(x.X)
		ks := vc.sorts.sortOf(t.Key())
		vkey := fmt.Sprintf("visited$%s", x.Name())
		vc.registerKey(vkey, "(Array "+ks+" Bool)")
		vc.setRaw(vkey, "((as const (Array " + ks + " Bool)) false)")
		vc.rangeIters[x] = &rangeIter{kind: "map", m: m, visitedKey: vkey, keyT: t.Key(), valT: t.Elem()}
	case *types.Basic:
		s := vc.val(x.X)
		pkey := fmt.Sprintf("strpos$%s", x.Name())
		vc.registerKey(pkey, SInt)
		vc.setRaw(pkey, "0")
		vc.rangeIters[x] = &rangeIter{kind: "string", m: s, posKey: pkey}
	default:
		vc.fail("range over %s", x.X.Type())
	}
}

func (vc *FnVC) doNext(x *ssa.Next) {
	it, ok := vc.rangeIters[x.Iter]
	if !ok {
		vc.fail("next on unknown iterator")
	}
	tup := x.Type().(*types.Tuple)
	if it.kind == "map" {
		mt := it.m.T.Underlying().(*types.Map)
		dom, val, _, ks, vs := vc.mapKeys(mt)
		okc := vc.fresh("nextok", SBool)
		k := vc.fresh("nextk", ks)
		d := vc.fresh("rdom", "(Array "+ks+" Bool)")
		vc.assume(sEq(d, sSelect(vc.cur(dom), it.m.S)))
		vis0 := vc.cur(it.visitedKey)
		vis := vc.fresh("rvis", "(Array "+ks+" Bool)")
		vc.assume(sEq(vis, vis0))
		// ok => k in dom, not visited;  !ok => every key in dom visited
		vc.assume(sImp(okc, sAnd(sNot(sEq(it.m.S, "0")), sSelect(d, k), sNot(sSelect(vis, k)))))
		vc.assume(sImp(sNot(okc), sOr(sEq(it.m.S, "0"), fmt.Sprintf("(forall ((kk %s)) (! (=> (select %s kk) (select %s kk)) :pattern ((select %s kk))))", ks, d, vis, d))))
		v := vc.define("nextv", vs, sSelect(sSelect(vc.cur(val), it.m.S), k))
		vc.set(it.visitedKey, sIte(okc, sStore(vis, k, "true"), vis))
		kv := Val{k, tup.At(1).Type(), ks}
		vv := Val{v, tup.At(2).Type(), vs}
		vc.assume(sImp(okc, sAnd(vc.typeFacts(Val{k, it.keyT, ks}), vc.typeFacts(Val{v, it.valT, vs}), vc.regimeFacts(v, it.valT, 0))))
		vc.tuples[x] = []Val{{okc, types.Typ[types.Bool], SBool}, kv, vv}
		return
	}
	// string iteration: positions advance by the rune size (1..4)
	s := it.m
	pos := vc.cur(it.posKey)
	vc.sorts.declareFun("gs.runeAt", "(Str Int) Int")
	vc.sorts.declareFun("gs.runeSize", "(Str Int) Int")
	okc := vc.define("nextok", SBool, sx("<", pos, sx("gs.len", s.S)))
	r := vc.define("nextr", SInt, sx("gs.runeAt", s.S, pos))
	sz := sx("gs.runeSize", s.S, pos)
	vc.assume(sImp(okc, sAnd(sx("<=", "1", sz), sx("<=", sz, "4"), sx("<=", sx("+", pos, sz), sx("gs.len", s.S)), sx("<=", "0", r), sx("<=", r, "1114111"))))
	vc.set(it.posKey, sIte(okc, sx("+", pos, sz), pos))
	vc.tuples[x] = []Val{{okc, types.Typ[types.Bool], SBool}, {pos, types.Typ[types.Int], SInt}, {r, types.Typ[types.Rune], SInt}}
}

// allocInitialises: the block that allocates the struct also stores field i (composite literal).
func allocInitialises(a *ssa.Alloc, field int) bool {
	for _, ref := range *a.Referrers() {
		fa, ok := ref.(*ssa.FieldAddr)
		if !ok || fa.Field != field || fa.Block() != a.Block() {
			continue
		}
		for _, r2 := range *fa.Referrers() {
			if st, ok := r2.(*ssa.Store); ok && st.Addr == fa && st.Block() == a.Block() {
				return true
			}
		}
	}
	return false
}

func isPlainRef(a *Addr) bool {
	return a.kind == aObj || a.kind == aBox && len(a.path) == 0 || a.kind == aMem && len(a.path) == 0 && a.idx == ""
}

func singleStore(a *ssa.Alloc) bool {
	n := 0
	for _, r := range *a.Referrers() {
		if st, ok := r.(*ssa.Store); ok && st.Addr == a {
			n++
		}
	}
	return n == 1
}

// embRef: the sub-reference of struct-typed field `field` of the object r of type stT.
func (vc *FnVC) embRef(stT types.Type, field int, r string) string {
	st := stT.Underlying().(*types.Struct)
	name := "emb$" + vc.sorts.sortOf(stT)[2:] + "$" + sanitize(st.Field(field).Name())
	id := vc.eng.embID(name)
	vc.sorts.declareFun(name, "(Int) Int")
	vc.sorts.declareFun("emb.host", "(Int) Int")
	vc.sorts.declareFun("emb.tag", "(Int) Int")
	vc.sorts.rawDecl("ax$"+name, fmt.Sprintf("(assert (forall ((r Int)) (! (and (< (%s r) 0) (= (emb.host (%s r)) r) (= (emb.tag (%s r)) %d)) :pattern ((%s r)))))", name, name, name, id, name))
	return sx(name, r)
}
