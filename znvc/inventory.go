package main

// Whole-module inventories for the determinism property (C11): every range-over-map site and every call to a
// nondeterministic source in the interpreter's packages must be declared in a contract file.
//
//   //@ maprange <fn>#k determined <tag,tag,...> : <why>     the function's postconditions <tags> pin its result down
//                                                            for every visiting order (the engine's map-range model
//                                                            delivers the keys in an arbitrary order, so a proof of
//                                                            those clauses is a proof for all orders)
//   //@ maprange <fn>#k assumed : <why>                      order-independence argued on paper; reported as unchecked
//   //@ maprange <fn>#k order-dependent : <what leaks>       the visiting order is observable: the site's obligation fails
//   //@ nondet <fn> <callee> : <why allowed>

import (
	"fmt"
	"go/constant"
	"go/types"
	"sort"
	"strings"

	"golang.org/x/tools/go/ssa"
)

type MapRangeDecl struct {
	Key   string // pkg.fn#k
	Class string // determined | assumed | order-dependent
	Tags  []string
	Why   string
	File  string
	Line  int
}

func parseMapRangeDecl(pkg, text string) (*MapRangeDecl, error) {
	why := ""
	if i := strings.Index(text, " : "); i >= 0 {
		why = strings.TrimSpace(text[i+3:])
		text = text[:i]
	}
	f := strings.Fields(text)
	if len(f) < 2 {
		return nil, fmt.Errorf("maprange <fn>#k determined <tags>|assumed|order-dependent : <why>")
	}
	d := &MapRangeDecl{Key: pkg + "." + f[0], Class: f[1], Why: why}
	switch f[1] {
	case "determined":
		if len(f) < 3 {
			return nil, fmt.Errorf("maprange ... determined needs the ensures tags that pin the result down")
		}
		for _, t := range strings.Split(strings.Join(f[2:], ""), ",") {
			if t != "" {
				d.Tags = append(d.Tags, t)
			}
		}
	case "assumed", "order-dependent":
	default:
		return nil, fmt.Errorf("maprange class %q", f[1])
	}
	return d, nil
}

type mapRangeSite struct {
	Key string
	Fn  *ssa.Function
	Pos string
}

// mapRangeSites lists every range-over-map instruction of the loaded packages, keyed fn#k in source order.
func (eng *Engine) mapRangeSites() []mapRangeSite {
	var out []mapRangeSite
	var keys []string
	for k := range eng.funcs {
		keys = append(keys, k)
	}
	sort.Strings(keys)
	for _, k := range keys {
		f := eng.funcs[k]
		var rs []*ssa.Range
		for _, b := range f.Blocks {
			for _, ins := range b.Instrs {
				if r, ok := ins.(*ssa.Range); ok {
					if _, isMap := r.X.Type().Underlying().(*types.Map); isMap {
						rs = append(rs, r)
					}
				}
			}
		}
		sort.Slice(rs, func(i, j int) bool { return rs[i].Pos() < rs[j].Pos() })
		for i, r := range rs {
			out = append(out, mapRangeSite{Key: fmt.Sprintf("%s#%d", k, i+1), Fn: f, Pos: eng.fset.Position(r.Pos()).String()})
		}
	}
	return out
}

func (eng *Engine) inventoryMapRange() []*Obligation {
	var out []*Obligation
	sites := eng.mapRangeSites()
	var undeclared []string
	seen := map[string]bool{}
	for _, s := range sites {
		seen[s.Key] = true
		d := eng.specs.MapRanges[s.Key]
		if d == nil {
			undeclared = append(undeclared, s.Key+" at "+s.Pos)
			continue
		}
		o := &Obligation{Name: "inventory/map-range:" + s.Key + " does not leak the visiting order#1", Kind: "inventory", Fn: "inventory/map-range:" + s.Key, Pos: s.Pos, Evaluated: true, Solver: "eval", Result: "unsat"}
		switch d.Class {
		case "order-dependent":
			o.Result = "sat"
			o.Model = "declared order-dependent: " + d.Why
		case "determined":
			c := eng.specs.Contracts[fnKey(s.Fn)]
			var missing []string
			for _, t := range d.Tags {
				found := false
				if c != nil {
					for _, e := range c.Ensures {
						if e.Tag == t {
							found = true
						}
					}
				}
				if !found {
					missing = append(missing, t)
				}
			}
			if len(missing) > 0 {
				o.Result = "sat"
				o.Model = "the postconditions that pin the result down are missing from the contract of " + fnKey(s.Fn) + ": " + strings.Join(missing, ", ")
			}
		}
		out = append(out, o)
	}
	o := &Obligation{Name: "inventory/map-range:every range-over-map site of the interpreter is declared#1", Kind: "inventory", Fn: "inventory/map-range", Evaluated: true, Solver: "eval", Result: "unsat"}
	if len(undeclared) > 0 {
		o.Result = "sat"
		o.Model = "range-over-map sites without a maprange declaration (their visiting order may be observable):\n" + strings.Join(undeclared, "\n")
	}
	out = append(out, o)
	return out
}

func (eng *Engine) mapRangeAssumed() []string {
	var out []string
	for _, s := range eng.mapRangeSites() {
		if d := eng.specs.MapRanges[s.Key]; d != nil && d.Class == "assumed" {
			out = append(out, "map-range site "+s.Key+" ("+s.Pos+") is taken to be order-independent on a paper argument: "+d.Why)
		}
	}
	return out
}

var nondetPkgs = map[string]bool{"math/rand": true, "math/rand/v2": true, "crypto/rand": true, "maps": true}
var nondetFuncs = map[string]bool{"time.Now": true, "time.Since": true, "time.Until": true, "time.After": true, "time.Tick": true,
	"os.Getpid": true, "os.Getppid": true, "runtime.NumGoroutine": true, "runtime.Stack": true, "runtime.Callers": true,
	"(reflect.Value).MapKeys": true, "(reflect.Value).MapRange": true, "(reflect.Value).Pointer": true, "(reflect.Value).UnsafePointer": true}

// inventoryNondet: calls to nondeterministic sources, goroutines, selects, pointer-to-integer conversions and %p formats.
func (eng *Engine) inventoryNondet() []*Obligation {
	var bad []string
	var keys []string
	for k := range eng.funcs {
		keys = append(keys, k)
	}
	sort.Strings(keys)
	for _, k := range keys {
		f := eng.funcs[k]
		flag := func(what string, ins ssa.Instruction) {
			if eng.specs.Nondet[k+" "+what] {
				return
			}
			bad = append(bad, fmt.Sprintf("%s: %s at %s", k, what, eng.fset.Position(ins.Pos())))
		}
		for _, b := range f.Blocks {
			for _, ins := range b.Instrs {
				switch x := ins.(type) {
				case *ssa.Go:
					flag("go-statement", ins)
				case *ssa.Select:
					if len(x.States) > 1 || !x.Blocking {
						flag("select", ins)
					}
				case *ssa.Convert:
					if bt, ok := x.Type().Underlying().(*types.Basic); ok && bt.Kind() == types.Uintptr {
						if xb, ok := x.X.Type().Underlying().(*types.Basic); ok && xb.Kind() == types.UnsafePointer {
							flag("pointer-to-integer", ins)
						}
					}
				}
				cc, ok := ins.(ssa.CallInstruction)
				if !ok {
					continue
				}
				callee := cc.Common().StaticCallee()
				if callee == nil || callee.Pkg == nil {
					continue
				}
				path := callee.Pkg.Pkg.Path()
				name := path + "." + callee.Name()
				if callee.Signature.Recv() != nil {
					name = callee.RelString(nil)
				}
				short := callee.Pkg.Pkg.Name() + "." + callee.Name()
				if callee.Signature.Recv() != nil {
					short = strings.ReplaceAll(callee.RelString(nil), path, callee.Pkg.Pkg.Name())
				}
				_ = name
				if callee.Name() == "init" {
					continue // package initialisation order is fixed by the language
				}
				if nondetPkgs[path] || nondetFuncs[short] {
					flag(short, ins)
				}
				if path == "fmt" {
					for _, a := range cc.Common().Args {
						if c, ok := a.(*ssa.Const); ok && c.Value != nil && c.Value.Kind() == constant.String && strings.Contains(constant.StringVal(c.Value), "%p") {
							flag("fmt-%p", ins)
						}
					}
				}
			}
		}
	}
	o := &Obligation{Name: "inventory/nondet-source:no undeclared call to a random, clock, process or address source; no goroutine or select#1", Kind: "inventory", Fn: "inventory/nondet-source", Evaluated: true, Solver: "eval", Result: "unsat"}
	if len(bad) > 0 {
		o.Result = "sat"
		o.Model = strings.Join(bad, "\n")
	}
	return []*Obligation{o}
}

// inventoryPredefined (C16): the predefined values of the interpreter (package exec, `globalValues`) are shared by every
// execution of the process. A value of a type that can be changed in place would carry one run's changes into the next:
// every predefined value must be of a frozen type (fields written only at allocation) or a type / method object (whose
// only mutator, SetConstructor, is guarded by a clause of evalConstructorDeclareStmt).
func (eng *Engine) inventoryPredefined() []*Obligation {
	var bad []string
	var keys []string
	for k := range eng.funcs {
		if strings.HasPrefix(k, "exec.init") {
			keys = append(keys, k)
		}
	}
	sort.Strings(keys)
	n := 0
	for _, k := range keys {
		f := eng.funcs[k]
		for _, b := range f.Blocks {
			for _, ins := range b.Instrs {
				mu, ok := ins.(*ssa.MapUpdate)
				if !ok {
					continue
				}
				mt, ok := mu.Map.Type().Underlying().(*types.Map)
				if !ok || !isRegimeIface(mt.Elem()) {
					continue
				}
				n++
				mi, ok := mu.Value.(*ssa.MakeInterface)
				if !ok {
					bad = append(bad, fmt.Sprintf("%s: value of unknown dynamic type at %s", k, eng.fset.Position(mu.Pos())))
					continue
				}
				pt, ok := mi.X.Type().Underlying().(*types.Pointer)
				var nm *types.Named
				if ok {
					nm, _ = pt.Elem().(*types.Named)
				}
				if nm == nil || nm.Obj().Pkg() == nil {
					bad = append(bad, fmt.Sprintf("%s: value of type %s at %s", k, mi.X.Type(), eng.fset.Position(mu.Pos())))
					continue
				}
				tn := nm.Obj().Pkg().Name() + "." + nm.Obj().Name()
				if eng.specs.Frozen[tn] || tn == "value.ClassModel" || tn == "value.Function" {
					continue
				}
				bad = append(bad, fmt.Sprintf("a predefined value of the mutable type %s (its in-place methods change it for every later execution) at %s", tn, eng.fset.Position(mu.Pos())))
			}
		}
	}
	o := &Obligation{Name: "inventory/predefined-values:every predefined value is of a frozen type or a type/method object#1", Kind: "inventory", Fn: "inventory/predefined-values", Evaluated: true, Solver: "eval", Result: "unsat"}
	if len(bad) > 0 || n == 0 {
		o.Result = "sat"
		if n == 0 {
			bad = append(bad, "no predefined-value table found in exec.init (the inventory is vacuous)")
		}
		o.Model = strings.Join(bad, "\n")
	}
	return []*Obligation{o}
}

// inventoryGlobalWrites (C16): package-level variables live as long as the process. A store to one of them (or into
// an array / struct kept in one) outside package initialisation is state that survives from one execution to the next.
func (eng *Engine) inventoryGlobalWrites() []*Obligation {
	var bad []string
	var keys []string
	for k := range eng.funcs {
		keys = append(keys, k)
	}
	sort.Strings(keys)
	rootGlobal := func(v ssa.Value) *ssa.Global {
		for i := 0; i < 8; i++ {
			switch x := v.(type) {
			case *ssa.Global:
				return x
			case *ssa.FieldAddr:
				v = x.X
			case *ssa.IndexAddr:
				v = x.X
			default:
				return nil
			}
		}
		return nil
	}
	for _, k := range keys {
		f := eng.funcs[k]
		root := f
		for root.Parent() != nil {
			root = root.Parent()
		}
		if strings.HasPrefix(root.Name(), "init") {
			continue
		}
		for _, b := range f.Blocks {
			for _, ins := range b.Instrs {
				st, ok := ins.(*ssa.Store)
				if !ok {
					continue
				}
				if g := rootGlobal(st.Addr); g != nil && g.Pkg != nil && strings.HasPrefix(g.Pkg.Pkg.Path(), eng.modPath) {
					what := k + " " + g.Name()
					if eng.specs.Nondet["globalwrite "+what] {
						continue
					}
					bad = append(bad, fmt.Sprintf("%s writes package-level variable %s.%s at %s", k, g.Pkg.Pkg.Name(), g.Name(), eng.fset.Position(st.Pos())))
				}
			}
		}
	}
	o := &Obligation{Name: "inventory/global-writes:no package-level variable is written outside package initialisation#1", Kind: "inventory", Fn: "inventory/global-writes", Evaluated: true, Solver: "eval", Result: "unsat"}
	if len(bad) > 0 {
		o.Result = "sat"
		o.Model = strings.Join(bad, "\n")
	}
	return []*Obligation{o}
}

// inventoryScopeDiscipline (C06): a block scope that is opened must be closed on every path out of the function that
// opened it, panics and error returns included. The evaluator does this with one idiom - `vm.BeginScope()` directly
// followed by `defer vm.EndScope()` - and the three functions that use it carry a contract clause saying so. This
// inventory extends the discipline to every other function of the interpreter's packages: outside package runtime,
// VM.EndScope is only ever called deferred, and every VM.BeginScope call is followed, before any other call of the
// same block, by the deferred VM.EndScope. A function that opens a scope without that pairing is reported.
func (eng *Engine) inventoryScopeDiscipline() []*Obligation {
	var bad []string
	var keys []string
	for k := range eng.funcs {
		keys = append(keys, k)
	}
	sort.Strings(keys)
	isVM := func(c *ssa.CallCommon, name string) bool {
		f := c.StaticCallee()
		if f == nil || f.Name() != name || f.Signature.Recv() == nil {
			return false
		}
		return strings.HasSuffix(f.Signature.Recv().Type().String(), "/pkg/runtime.VM")
	}
	nSites := 0
	for _, k := range keys {
		f := eng.funcs[k]
		if f.Pkg != nil && strings.HasSuffix(f.Pkg.Pkg.Path(), "/pkg/runtime") {
			continue
		}
		for _, b := range f.Blocks {
			for i, ins := range b.Instrs {
				switch x := ins.(type) {
				case *ssa.Call:
					if isVM(x.Common(), "EndScope") {
						bad = append(bad, fmt.Sprintf("%s calls VM.EndScope directly (not deferred) at %s", k, eng.fset.Position(x.Pos())))
					}
					if isVM(x.Common(), "BeginScope") {
						nSites++
						paired := false
						for _, nx := range b.Instrs[i+1:] {
							if d, ok := nx.(*ssa.Defer); ok && isVM(d.Common(), "EndScope") {
								paired = true
								break
							}
							if _, isCall := nx.(ssa.CallInstruction); isCall {
								break
							}
						}
						if !paired {
							bad = append(bad, fmt.Sprintf("%s opens a scope at %s that is not closed by a deferred VM.EndScope placed directly after it", k, eng.fset.Position(x.Pos())))
						}
					}
				case *ssa.Go:
					if isVM(x.Common(), "EndScope") || isVM(x.Common(), "BeginScope") {
						bad = append(bad, fmt.Sprintf("%s starts a goroutine on a scope operation at %s", k, eng.fset.Position(x.Pos())))
					}
				}
			}
		}
	}
	o := &Obligation{Name: "inventory/scope-discipline:every scope opened outside package runtime is closed by a deferred EndScope placed directly after BeginScope#1", Kind: "inventory", Fn: "inventory/scope-discipline", Evaluated: true, Solver: "eval", Result: "unsat"}
	if len(bad) > 0 {
		o.Result = "sat"
		o.Model = strings.Join(bad, "\n")
	} else if nSites == 0 {
		// vacuity guard: the idiom exists in the pinned tree; finding no site at all means the scan is broken
		o.Result = "sat"
		o.Model = "no VM.BeginScope call site found: the inventory scanned nothing"
	}
	return []*Obligation{o}
}
