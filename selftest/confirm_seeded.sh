#!/bin/bash
# usage: confirm_seeded.sh <srcdir> <n> <demo-pkg-dir>  -- confirms a seeded change in a scratch clone of /repo:
# builds, existing tests pass, demo fails with the change and passes without it. Prints CONFIRMED or the failing step.
SRC=$1; N=$2; PKG=$3
export GOFLAGS=-mod=mod GOPROXY=off GOSUMDB=off GOTOOLCHAIN=local
W=$(mktemp -d /tmp/confirm.XXXX)
git clone -q /repo $W/r || exit 3
cd $W/r
cp $SRC/demo${N}_test.go $PKG/zz_demo_test.go
base=$(timeout 300 go test -vet=off -count=1 -run Demo ./$PKG 2>&1 | tail -1)
git apply $SRC/patch$N.diff || { echo "patch does not apply"; rm -rf $W; exit 3; }
build=$(go build ./pkg/exec ./pkg/io ./pkg/runtime ./pkg/syntax/... ./pkg/value ./pkg/common 2>&1 | tail -2)
rm $PKG/zz_demo_test.go
suite=$(timeout 600 go test -vet=off -count=1 ./pkg/exec ./pkg/io ./pkg/runtime ./pkg/syntax/... ./pkg/value 2>&1 | grep -c "^ok")
cp $SRC/demo${N}_test.go $PKG/zz_demo_test.go
mut=$(timeout 300 go test -vet=off -count=1 -run Demo ./$PKG 2>&1 | tail -1)
cd /; rm -rf $W
echo "base: $base | build: ${build:-ok} | suite ok packages: $suite/6 | with change: $mut"
case "$base" in ok*) ;; *) echo "NOT CONFIRMED (demo fails on unchanged code)"; exit 1;; esac
[ "$suite" = "6" ] || { echo "NOT CONFIRMED (suite)"; exit 1; }
case "$mut" in FAIL*) echo CONFIRMED;; *) echo "NOT CONFIRMED (demo passes with change)"; exit 1;; esac
