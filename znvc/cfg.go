package main

// CFG driver: loop detection, topological processing, state merging, loop cutting, returns.

import (
	"fmt"
	"go/token"
	"go/types"
	"sort"
	"strings"

	"golang.org/x/tools/go/ssa"
)

func (vc *FnVC) findLoops() {
	fn := vc.fn
	vc.loops = map[*ssa.BasicBlock]*LoopInfo{}
	for _, b := range fn.Blocks {
		for _, s := range b.Succs {
			if s.Dominates(b) {
				li := vc.loops[s]
				if li == nil {
					li = &LoopInfo{head: s, body: map[*ssa.BasicBlock]bool{s: true}}
					vc.loops[s] = li
				}
				li.tails = append(li.tails, b)
				// natural loop: nodes that reach b without passing through s
				var stack []*ssa.BasicBlock
				if !li.body[b] {
					li.body[b] = true
					stack = append(stack, b)
				}
				for len(stack) > 0 {
					n := stack[len(stack)-1]
					stack = stack[:len(stack)-1]
					for _, p := range n.Preds {
						if !li.body[p] {
							li.body[p] = true
							stack = append(stack, p)
						}
					}
				}
			}
		}
	}
	var heads []*ssa.BasicBlock
	for h := range vc.loops {
		heads = append(heads, h)
	}
	// order loops by the source position of their first positioned instruction (fallback: block index)
	pos := func(b *ssa.BasicBlock) int {
		best := token.Pos(0)
		li := vc.loops[b]
		for blk := range li.body {
			for _, ins := range blk.Instrs {
				if p := ins.Pos(); p.IsValid() && (best == 0 || p < best) {
					best = p
				}
			}
		}
		return int(best)
	}
	sort.Slice(heads, func(i, j int) bool {
		pi, pj := pos(heads[i]), pos(heads[j])
		if pi != pj {
			return pi < pj
		}
		return heads[i].Index < heads[j].Index
	})
	for i, h := range heads {
		vc.loops[h].ord = i + 1
	}
}

func (vc *FnVC) isBackEdge(from, to *ssa.BasicBlock) bool {
	return to.Dominates(from)
}

func (vc *FnVC) topoOrder(blocks map[*ssa.BasicBlock]bool, start *ssa.BasicBlock) []*ssa.BasicBlock {
	var order []*ssa.BasicBlock
	seen := map[*ssa.BasicBlock]bool{}
	var dfs func(b *ssa.BasicBlock)
	dfs = func(b *ssa.BasicBlock) {
		seen[b] = true
		for _, s := range b.Succs {
			if vc.isBackEdge(b, s) || seen[s] {
				continue
			}
			if blocks != nil && !blocks[s] {
				continue
			}
			dfs(s)
		}
		order = append(order, b)
	}
	dfs(start)
	for i, j := 0, len(order)-1; i < j; i, j = i+1, j-1 {
		order[i], order[j] = order[j], order[i]
	}
	return order
}

func (vc *FnVC) edgeCond(from, to *ssa.BasicBlock) string {
	if len(from.Instrs) == 0 {
		return "true"
	}
	if iff, ok := from.Instrs[len(from.Instrs)-1].(*ssa.If); ok {
		c := vc.val(iff.Cond).S
		if from.Succs[0] == to && from.Succs[1] == to {
			return "true"
		}
		if from.Succs[0] == to {
			return c
		}
		return sNot(c)
	}
	return "true"
}

func (vc *FnVC) exitName(b *ssa.BasicBlock) string {
	return fmt.Sprintf("X_%d", b.Index)
}

// run processes the whole function.
func (vc *FnVC) run() {
	fn := vc.fn
	vc.findLoops()
	entry := fn.Blocks[0]
	order := vc.topoOrder(nil, entry)
	vc.processBlocks(order, nil)
}

type recording struct {
	keys   map[string]bool
	locals map[*ssa.Alloc]bool
	all    bool
}

var _ = strings.Join

// processBlocks runs the symbolic pass over blocks (a topological order). If start != nil, the pass begins at
// block order[0] with state *start (used for the scratch pass over a loop body).
func (vc *FnVC) processBlocks(order []*ssa.BasicBlock, start *State) {
	inSet := map[*ssa.BasicBlock]bool{}
	for _, b := range order {
		inSet[b] = true
	}
	for bi, b := range order {
		vc.curBlock = b
		if bi == 0 && start != nil {
			vc.st = start
		} else if b == vc.fn.Blocks[0] {
			// entry state prepared by setupEntry
		} else {
			if !vc.mergeInto(b, inSet) {
				continue // unreachable
			}
		}
		if li, ok := vc.loops[b]; ok && !(bi == 0 && start != nil) {
			vc.loopHead(li)
		}
		if vc.st.dead {
			vc.exitSt[b] = vc.st
			continue
		}
		for _, ins := range b.Instrs {
			vc.instr(ins)
		}
		// terminator
		last := b.Instrs[len(b.Instrs)-1]
		switch t := last.(type) {
		case *ssa.Return:
			if start == nil || true {
				vc.doReturn(t)
			}
		case *ssa.Panic:
			vc.doPanic(t)
		}
		// exit definition
		xn := vc.exitName(b)
		vc.body = append(vc.body, fmt.Sprintf("(define-fun %s () Bool %s)", vc.uniq(xn), vc.pathCond()))
		vc.st.reach = vc.lastUniq
		vc.st.assumes = nil
		vc.exitSt[b] = vc.st
		// back edges
		for _, s := range b.Succs {
			if vc.isBackEdge(b, s) {
				if start != nil && order[0] == s {
					continue // scratch pass: do not check the loop being scanned
				}
				vc.backEdge(b, s)
			}
		}
		// edges leaving a loop: exit-step clauses
		if vc.scratch == 0 && vc.con != nil && len(vc.con.ExitSteps) > 0 {
			if _, isRet := last.(*ssa.Return); !isRet {
				for _, li := range vc.loops {
					if !li.body[b] || li.entryS == nil || len(vc.con.ExitSteps[li.ord]) == 0 {
						continue
					}
					for _, s := range b.Succs {
						if !li.body[s] {
							vc.exitEdge(b, s, li)
						}
					}
				}
			} else {
				for _, li := range vc.loops {
					if li.body[b] && li.entryS != nil && len(vc.con.ExitSteps[li.ord]) > 0 {
						vc.exitEdge(b, nil, li)
					}
				}
			}
		}
	}
}

func (vc *FnVC) uniq(base string) string {
	vc.nfresh++
	vc.lastUniq = fmt.Sprintf("%s!%d", base, vc.nfresh)
	return vc.lastUniq
}

// mergeInto computes the entry state of block b from its processed predecessors. Returns false if unreachable.
func (vc *FnVC) mergeInto(b *ssa.BasicBlock, inSet map[*ssa.BasicBlock]bool) bool {
	type pe struct {
		p    *ssa.BasicBlock
		st   *State
		idx  int
		cond string
	}
	var preds []pe
	for i, p := range b.Preds {
		if vc.isBackEdge(p, b) {
			continue
		}
		st, ok := vc.exitSt[p]
		if !ok || st.dead || !inSet[p] {
			continue
		}
		last := p.Instrs[len(p.Instrs)-1]
		if _, isRet := last.(*ssa.Return); isRet {
			continue
		}
		if _, isPanic := last.(*ssa.Panic); isPanic {
			continue
		}
		preds = append(preds, pe{p, st, i, vc.edgeCond(p, b)})
	}
	if len(preds) == 0 {
		vc.st = &State{dead: true, locals: map[*ssa.Alloc]string{}, vars: map[string]string{}, reach: "false"}
		return false
	}
	// phis
	var phis []*ssa.Phi
	for _, ins := range b.Instrs {
		if ph, ok := ins.(*ssa.Phi); ok {
			phis = append(phis, ph)
		} else {
			break
		}
	}
	if len(preds) == 1 && len(phis) == 0 {
		p := preds[0]
		ns := p.st.clone()
		ns.assumes = nil
		ns.reach = vc.defineBool(fmt.Sprintf("R_%d", b.Index), sAnd(p.st.reach, p.cond))
		vc.st = ns
		return true
	}
	ns := &State{locals: map[*ssa.Alloc]string{}, vars: map[string]string{}}
	eqs := make([][]string, len(preds))
	// epoch
	sameEpoch := true
	for _, p := range preds[1:] {
		if p.st.epoch != preds[0].st.epoch {
			sameEpoch = false
		}
	}
	if sameEpoch {
		ns.epoch = preds[0].st.epoch
	} else {
		vc.epochN++
		ns.epoch = vc.epochN
	}
	// locals present in all preds
	for a, t0 := range preds[0].st.locals {
		all, same := true, true
		for _, p := range preds[1:] {
			t, ok := p.st.locals[a]
			if !ok {
				all = false
				break
			}
			if t != t0 {
				same = false
			}
		}
		if !all {
			continue
		}
		if same {
			ns.locals[a] = t0
			continue
		}
		et := a.Type().(*types.Pointer).Elem()
		n := vc.fresh(hintName(a)+fmt.Sprintf("@b%d", b.Index), vc.sorts.sortOf(et))
		ns.locals[a] = n
		for i, p := range preds {
			eqs[i] = append(eqs[i], sEq(n, p.st.locals[a]))
		}
	}
	// vars
	keys := map[string]bool{}
	if sameEpoch {
		for _, p := range preds {
			for k := range p.st.vars {
				keys[k] = true
			}
		}
	} else {
		for _, k := range vc.keyOrd {
			keys[k] = true
		}
	}
	for _, k := range sortedKeys(keys) {
		t0 := vc.curIn(preds[0].st, k)
		same := true
		for _, p := range preds[1:] {
			if vc.curIn(p.st, k) != t0 {
				same = false
			}
		}
		if same && sameEpoch {
			if _, ok := preds[0].st.vars[k]; ok {
				ns.vars[k] = t0
			}
			continue
		}
		if same && (!isHeapKey(k)) {
			ns.vars[k] = t0
			continue
		}
		n := vc.fresh(sanitizeKey(k)+fmt.Sprintf("@b%d", b.Index), vc.keySort[k])
		ns.vars[k] = n
		for i, p := range preds {
			eqs[i] = append(eqs[i], sEq(n, vc.curIn(p.st, k)))
		}
	}
	// phis
	for _, ph := range phis {
		k := vc.sorts.sortOf(ph.Type())
		n := vc.fresh(ph.Name(), k)
		vc.regs[ph] = Val{n, ph.Type(), k}
		for i, p := range preds {
			eqs[i] = append(eqs[i], sEq(n, vc.val(ph.Edges[p.idx]).S))
		}
	}
	var disj []string
	for i, p := range preds {
		disj = append(disj, sAnd(append([]string{p.st.reach, p.cond}, eqs[i]...)...))
	}
	ns.reach = vc.defineBool(fmt.Sprintf("R_%d", b.Index), sOr(disj...))
	vc.st = ns
	return true
}

func (vc *FnVC) defineBool(base, term string) string {
	n := vc.uniq(base)
	vc.body = append(vc.body, fmt.Sprintf("(define-fun %s () Bool %s)", n, term))
	return n
}

// ---- loops ----

func (vc *FnVC) invEnv(st *State) *SpecEnv {
	env := vc.newEnv(vc.con, vc.fn)
	env.cur = st
	env.old = vc.entry
	env.useLocals = true
	env.fn = vc.fn
	for n, v := range vc.paramVals {
		if _, isLocal := vc.allocNames[n]; !isLocal {
			env.vars[n] = v
		}
		env.vars["old_"+n] = v
	}
	return env
}

func (vc *FnVC) loopInvs(li *LoopInfo) []*Clause {
	if vc.con == nil {
		return nil
	}
	return vc.con.Invs[li.ord]
}

// autoInvs: facts about compiler-generated range counters.
func (vc *FnVC) autoInvs(li *LoopInfo, st *State, mod map[*ssa.Alloc]bool) []string {
	var out []string
	for a := range mod {
		if a.Comment == "rangeindex" {
			if t, ok := st.locals[a]; ok {
				out = append(out, sx("<=", "(- 1)", t))
				// upper bound: the head tests `rangeindex+1 < n` with n computed before the loop
				for _, ins := range li.head.Instrs {
					if bo, ok := ins.(*ssa.BinOp); ok && bo.Op == token.LSS {
						if inc, ok := bo.X.(*ssa.BinOp); ok && inc.Op == token.ADD {
							if ld, ok := inc.X.(*ssa.UnOp); ok && ld.X == a {
								if nv, ok := vc.regs[bo.Y]; ok && !li.body[bo.Y.(ssa.Instruction).Block()] {
									out = append(out, sx("<", t, nv.S))
								}
							}
						}
					}
				}
			}
		}
	}
	sort.Strings(out)
	return out
}

func (vc *FnVC) checkInvs(li *LoopInfo, st *State, hyp string, kind string, mod map[*ssa.Alloc]bool) {
	save := vc.st
	tmp := st.clone()
	tmp.reach = hyp
	tmp.assumes = nil
	vc.st = tmp
	for i, f := range vc.autoInvs(li, tmp, mod) {
		vc.assert(kind, fmt.Sprintf("loop%d:auto%d", li.ord, i+1), f)
	}
	for i, c := range vc.loopInvs(li) {
		env := vc.invEnv(tmp)
		var parts []string
		_, err := vc.trySpec(func() string { parts = env.conjuncts(c.Expr, false); return "" })
		if err != "" {
			vc.stale = append(vc.stale, fmt.Sprintf("%s loop %d invariant %d: %s", vc.key, li.ord, i+1, err))
			continue
		}
		vc.flushSide(env)
		for j, t := range parts {
			nm := fmt.Sprintf("loop%d:%s", li.ord, clauseName(c, i))
			if len(parts) > 1 {
				nm = fmt.Sprintf("%s.%d", nm, j+1)
			}
			vc.assert(kind, nm, t)
		}
	}
	vc.st = save
}

func (vc *FnVC) trySpec(f func() string) (res string, err string) {
	defer func() {
		if r := recover(); r != nil {
			if sf, ok := r.(specFail); ok {
				err = string(sf)
				return
			}
			panic(r)
		}
	}()
	return f(), ""
}

func (vc *FnVC) loopHead(li *LoopInfo) {
	// 1. scratch pass: which locals / keys does the body write?
	rec := vc.scanLoop(li)
	// 2. invariants hold on entry
	vc.checkInvs(li, vc.st, vc.st.reach, "inv-init", rec.locals)
	li.preS = vc.st.clone()
	// 3. havoc
	if rec.all {
		vc.havocAll()
	}
	var las []*ssa.Alloc
	for a := range rec.locals {
		las = append(las, a)
	}
	sort.Slice(las, func(i, j int) bool { return las[i].Pos() < las[j].Pos() || las[i].Pos() == las[j].Pos() && las[i].Name() < las[j].Name() })
	for _, a := range las {
		if _, ok := vc.st.locals[a]; !ok {
			continue // declared inside the loop: re-initialised on every pass
		}
		et := a.Type().(*types.Pointer).Elem()
		k := vc.sorts.sortOf(et)
		n := vc.fresh(hintName(a)+fmt.Sprintf("@L%d", li.ord), k)
		vc.setLocal(a, n)
		vc.assume(vc.typeFacts(Val{n, et, k}))
	}
	for _, k := range sortedKeys(rec.keys) {
		if rec.all && isHeapKey(k) {
			continue
		}
		old := vc.cur(k)
		n := vc.fresh(sanitizeKey(k)+fmt.Sprintf("@L%d", li.ord), vc.keySort[k])
		vc.setRaw(k, n)
		if k == "$alloc" || k == "$tick" || strings.HasSuffix(k, "$count") {
			vc.assume(sx("<=", old, n))
		}
		if strings.HasPrefix(k, "W$") && strings.HasSuffix(k, "$done") {
			vc.assume(sImp(old, n))
		}
	}
	// 4. assume invariants
	for _, f := range vc.autoInvs(li, vc.st, rec.locals) {
		vc.assume(f)
	}
	for i, c := range vc.loopInvs(li) {
		env := vc.invEnv(vc.st)
		t, err := vc.trySpec(func() string { return env.boolExpr(c.Expr) })
		if err != "" {
			_ = i
			continue
		}
		vc.flushSide(env)
		vc.assume(t)
	}
	// 5. decreases measure at loop entry
	li.decr0 = nil
	if vc.con != nil {
		if d, ok := vc.con.Decr[li.ord]; ok {
			env := vc.invEnv(vc.st)
			t, err := vc.trySpec(func() string { return env.intExpr(d.Expr) })
			if err == "" {
				li.decr0 = []string{vc.define(fmt.Sprintf("decr%d", li.ord), SInt, t)}
			} else {
				vc.stale = append(vc.stale, fmt.Sprintf("%s loop %d decreases: %s", vc.key, li.ord, err))
			}
		}
	}
	li.entryS = vc.st.clone()
	li.mod = rec
}

func (vc *FnVC) backEdge(from, head *ssa.BasicBlock) {
	li := vc.loops[head]
	st := vc.exitSt[from]
	hyp := vc.defineBool(fmt.Sprintf("BE_%d_%d", from.Index, head.Index), sAnd(st.reach, vc.edgeCond(from, head)))
	mod := map[*ssa.Alloc]bool{}
	if li.mod != nil {
		mod = li.mod.locals
	}
	vc.checkInvs(li, st, hyp, "inv-preserved", mod)
	if vc.con != nil && len(vc.con.Steps[li.ord]) > 0 && li.entryS != nil {
		save := vc.st
		tmp := st.clone()
		tmp.reach = hyp
		tmp.assumes = nil
		vc.st = tmp
		for i, c := range vc.con.Steps[li.ord] {
			env := vc.invEnv(tmp)
			env.prev = li.entryS
			var parts []string
			_, err := vc.trySpec(func() string { parts = env.conjuncts(c.Expr, false); return "" })
			if err != "" {
				vc.stale = append(vc.stale, fmt.Sprintf("%s loop %d step %d: %s", vc.key, li.ord, i+1, err))
				continue
			}
			vc.flushSide(env)
			for j, t := range parts {
				nm := fmt.Sprintf("loop%d:%s", li.ord, clauseName(c, i))
				if len(parts) > 1 {
					nm = fmt.Sprintf("%s.%d", nm, j+1)
				}
				vc.assert("loop-step", nm, t)
			}
		}
		vc.st = save
	}
	if len(li.decr0) > 0 {
		save := vc.st
		tmp := st.clone()
		tmp.reach = hyp
		tmp.assumes = nil
		vc.st = tmp
		env := vc.invEnv(tmp)
		d := vc.con.Decr[li.ord]
		t, err := vc.trySpec(func() string { return env.intExpr(d.Expr) })
		if err == "" {
			vc.assert("decreases", fmt.Sprintf("loop%d", li.ord), sAnd(sx("<=", "0", li.decr0[0]), sx("<", t, li.decr0[0])))
		}
		vc.st = save
	}
}

// scanLoop lowers the loop body once in a scratch copy of the state to learn what it writes.
func (vc *FnVC) scanLoop(li *LoopInfo) *recording {
	rec := &recording{keys: map[string]bool{}, locals: map[*ssa.Alloc]bool{}}
	// snapshot
	bodyLen, oblLen, declLen := len(vc.body), len(vc.obls), len(vc.decls)
	occ := copyIntMap(vc.occ)
	callOcc := copyIntMap(vc.callOcc)
	defers := append([]*ssa.Defer(nil), vc.defers...)
	saveSt := vc.st
	saveRec := vc.rec
	exitSaved := map[*ssa.BasicBlock]*State{}
	for b, s := range vc.exitSt {
		exitSaved[b] = s
	}
	staleLen := len(vc.stale)
	retCount := vc.retCount
	epochN := vc.epochN
	iters := map[ssa.Value]*rangeIter{}
	for k, v := range vc.rangeIters {
		iters[k] = v
	}
	vc.rec = rec
	vc.scratch++
	order := vc.topoOrder(li.body, li.head)
	func() {
		defer func() {
			if r := recover(); r != nil {
				// restore and re-panic for unsupported constructs
				vc.scratch--
				vc.rec = saveRec
				panic(r)
			}
		}()
		vc.processBlocks(order, saveSt.clone())
	}()
	vc.scratch--
	// nested recording propagates outward
	if saveRec != nil {
		for k := range rec.keys {
			saveRec.keys[k] = true
		}
		for a := range rec.locals {
			saveRec.locals[a] = true
		}
		if rec.all {
			saveRec.all = true
		}
	}
	// rollback
	vc.rec = saveRec
	vc.body = vc.body[:bodyLen]
	vc.obls = vc.obls[:oblLen]
	_ = declLen
	vc.occ = occ
	vc.callOcc = callOcc
	vc.defers = defers
	vc.st = saveSt
	vc.exitSt = exitSaved
	vc.stale = vc.stale[:staleLen]
	vc.retCount = retCount
	_ = epochN
	vc.rangeIters = iters
	return rec
}

func copyIntMap(m map[string]int) map[string]int {
	n := make(map[string]int, len(m))
	for k, v := range m {
		n[k] = v
	}
	return n
}

// ---- returns and panics ----

func (vc *FnVC) doReturn(r *ssa.Return) {
	vc.retCount++
	if vc.scratch > 0 {
		return
	}
	env := vc.newEnv(vc.con, vc.fn)
	env.cur = vc.st
	env.old = vc.entry
	env.useLocals = true // internal clauses may name locals (such clauses are skipped at call sites)
	env.fn = vc.fn
	for n, v := range vc.paramVals {
		env.vars[n] = v
	}
	vc.retTerms = nil
	for i, res := range r.Results {
		v := vc.val(res)
		vc.retTerms = append(vc.retTerms, v.S)
		env.vars[fmt.Sprintf("r%d", i)] = v
		if i < len(vc.resultNames) {
			env.vars[vc.resultNames[i]] = v
		}
		if len(r.Results) == 1 {
			env.vars["result"] = v
		}
	}
	vc.cover("exit-reachable", "return")
	vc.checkFreshObjs(r.Block())
	vc.checkTouched(r.Block())
	if vc.con != nil {
		for i, c := range vc.con.Ensures {
			var parts []string
			_, err := vc.trySpec(func() string { parts = env.conjuncts(c.Expr, false); return "" })
			if err != "" {
				vc.specErrs = append(vc.specErrs, fmt.Sprintf("%s ensures %s: %s", vc.key, clauseName(c, i), err))
				continue
			}
			vc.flushSide(env)
			for j, t := range parts {
				nm := clauseName(c, i)
				if len(parts) > 1 {
					nm = fmt.Sprintf("%s.%d", nm, j+1)
				}
				vc.assert("post", nm, t)
			}
		}
	}
}

func (vc *FnVC) doPanic(p *ssa.Panic) {
	if vc.scratch > 0 {
		return
	}
	v := vc.val(p.X)
	if vc.con != nil && len(vc.con.Panics) > 0 {
		env := vc.newEnv(vc.con, vc.fn)
		env.cur = vc.st
		env.old = vc.entry
		for n, pv := range vc.paramVals {
			env.vars[n] = pv
		}
		env.vars["v"] = v
		var alts []string
		for i, c := range vc.con.Panics {
			t, err := vc.trySpec(func() string { return env.boolExpr(c.Expr) })
			if err != "" {
				vc.specErrs = append(vc.specErrs, fmt.Sprintf("%s panics %d: %s", vc.key, i+1, err))
				continue
			}
			alts = append(alts, t)
		}
		vc.flushSide(env)
		vc.assert("panic-allowed", vc.exprText(p.X), sOr(alts...))
		return
	}
	vc.assert("explicit-panic", "panic("+vc.exprText(p.X)+")", "false")
}

// exitEdge checks the exit-step clauses of loop li on the edge from (loop) block `from` to `to` (nil: a return inside the loop).
func (vc *FnVC) exitEdge(from, to *ssa.BasicBlock, li *LoopInfo) {
	st := vc.exitSt[from]
	if st == nil || st.dead {
		return
	}
	cond := "true"
	if to != nil {
		cond = vc.edgeCond(from, to)
	}
	hyp := vc.defineBool(fmt.Sprintf("EX_%d", from.Index), sAnd(st.reach, cond))
	save := vc.st
	tmp := st.clone()
	tmp.reach = hyp
	tmp.assumes = nil
	vc.st = tmp
	for i, c := range vc.con.ExitSteps[li.ord] {
		env := vc.invEnv(tmp)
		env.prev = li.entryS
		var parts []string
		_, err := vc.trySpec(func() string { parts = env.conjuncts(c.Expr, false); return "" })
		if err != "" {
			vc.stale = append(vc.stale, fmt.Sprintf("%s loop %d exitstep %d: %s", vc.key, li.ord, i+1, err))
			continue
		}
		vc.flushSide(env)
		for j, t := range parts {
			nm := fmt.Sprintf("loop%d:%s", li.ord, clauseName(c, i))
			if len(parts) > 1 {
				nm = fmt.Sprintf("%s.%d", nm, j+1)
			}
			vc.assert("loop-exit-step", nm, t)
		}
	}
	vc.st = save
}
