package main

// SMT-LIB term construction helpers. Terms are plain strings.

import (
	"fmt"
	"math/big"
	"strings"
)

func sx(op string, args ...string) string {
	if len(args) == 0 {
		return op
	}
	return "(" + op + " " + strings.Join(args, " ") + ")"
}

func sAnd(args ...string) string {
	var out []string
	for _, a := range args {
		if a == "true" || a == "" {
			continue
		}
		if a == "false" {
			return "false"
		}
		out = append(out, a)
	}
	switch len(out) {
	case 0:
		return "true"
	case 1:
		return out[0]
	}
	return sx("and", out...)
}

func sOr(args ...string) string {
	var out []string
	for _, a := range args {
		if a == "false" || a == "" {
			continue
		}
		if a == "true" {
			return "true"
		}
		out = append(out, a)
	}
	switch len(out) {
	case 0:
		return "false"
	case 1:
		return out[0]
	}
	return sx("or", out...)
}

func sNot(a string) string {
	if a == "true" {
		return "false"
	}
	if a == "false" {
		return "true"
	}
	return sx("not", a)
}

func sImp(a, b string) string {
	if a == "true" {
		return b
	}
	if b == "true" {
		return "true"
	}
	return sx("=>", a, b)
}

func sEq(a, b string) string  { return sx("=", a, b) }
func sIte(c, a, b string) string { return sx("ite", c, a, b) }

func sInt(n int64) string {
	if n < 0 {
		return fmt.Sprintf("(- %d)", -n)
	}
	return fmt.Sprintf("%d", n)
}

func sBig(n *big.Int) string {
	if n.Sign() < 0 {
		return "(- " + new(big.Int).Neg(n).String() + ")"
	}
	return n.String()
}

func sSelect(a, i string) string   { return sx("select", a, i) }
func sStore(a, i, v string) string { return sx("store", a, i, v) }

// sanitize an identifier for use as an SMT symbol (quoted symbol).
func sym(s string) string {
	ok := true
	for _, r := range s {
		if !(r >= 'a' && r <= 'z' || r >= 'A' && r <= 'Z' || r >= '0' && r <= '9' || strings.ContainsRune("_$.@!~-", r)) {
			ok = false
			break
		}
	}
	if ok && s != "" && !(s[0] >= '0' && s[0] <= '9') {
		return s
	}
	s = strings.ReplaceAll(s, "|", "!")
	s = strings.ReplaceAll(s, "\\", "!")
	return "|" + s + "|"
}
