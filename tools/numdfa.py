#!/usr/bin/env python3
"""Reference automaton for the documented numeric form (C04).

Builds the minimal DFA of
    R = [-+]? D+ (\\.D+)? ( ([eE][-+]D+) | (\\*(10)?\\^[-+]?D+) )?
(the form given in the property statement: optional sign, digits, optional fraction, optional E/e exponent with
mandatory sign, or *10^ / *^ exponent) by Brzozowski derivatives over the alphabet classes
    s = + -    1 = '1'    0 = '0'    d = 2..9    . = '.'    e = e E    * = '*'    ^ = '^'    x = anything else
and prints it as the contract function numDelta(q, class) with the states renamed to the state numbers used by
exec.tryParseNumber (matched by walking both automata from their start states over the same words).  The renaming
is only a naming convenience: the check `--verify` re-derives the automaton and compares it with the table in the
contract file, so the table in the contract cannot drift from the regular expression.
"""
import sys, re, itertools

# --- regex AST with smart constructors (similarity-normalised) ---
EMPTY, EPS = ('empty',), ('eps',)
def ch(c): return ('chr', c)
def seq(a, b):
    if a == EMPTY or b == EMPTY: return EMPTY
    if a == EPS: return b
    if b == EPS: return a
    if a[0] == 'seq': return seq(a[1], seq(a[2], b))
    return ('seq', a, b)
def alt(*xs):
    s = set()
    for x in xs:
        if x == EMPTY: continue
        if x[0] == 'alt': s |= set(x[1])
        else: s.add(x)
    if not s: return EMPTY
    if len(s) == 1: return next(iter(s))
    return ('alt', frozenset(s))
def star(a):
    if a in (EMPTY, EPS): return EPS
    if a[0] == 'star': return a
    return ('star', a)
def opt(a): return alt(EPS, a)
def plus(a): return seq(a, star(a))
def nullable(r):
    t = r[0]
    if t == 'eps' or t == 'star': return True
    if t in ('empty', 'chr'): return False
    if t == 'seq': return nullable(r[1]) and nullable(r[2])
    if t == 'alt': return any(nullable(x) for x in r[1])
def deriv(r, c):
    t = r[0]
    if t in ('empty', 'eps'): return EMPTY
    if t == 'chr': return EPS if c in r[1] else EMPTY
    if t == 'seq':
        d = seq(deriv(r[1], c), r[2])
        return alt(d, deriv(r[2], c)) if nullable(r[1]) else d
    if t == 'alt': return alt(*[deriv(x, c) for x in r[1]])
    if t == 'star': return seq(deriv(r[1], c), r)

CLASSES = ['s', '1', '0', 'd', '.', 'e', '*', '^', 'x']
D = ch(frozenset('10d'))
SIGN = ch(frozenset('s'))
R = seq(opt(SIGN), seq(plus(D), seq(opt(seq(ch(frozenset('.')), plus(D))),
        opt(alt(seq(ch(frozenset('e')), seq(SIGN, plus(D))),
                seq(ch(frozenset('*')), seq(opt(seq(ch(frozenset('1')), ch(frozenset('0')))), seq(ch(frozenset('^')), seq(opt(SIGN), plus(D))))))))))

def build():
    states, trans, todo = {R: 0}, {}, [R]
    while todo:
        r = todo.pop()
        for c in CLASSES:
            d = deriv(r, c)
            if d not in states:
                states[d] = len(states); todo.append(d)
            trans[(states[r], c)] = states[d]
    acc = {i for r, i in states.items() if nullable(r)}
    dead = states[EMPTY]
    # minimise (Moore)
    part = {i: (i in acc) for i in states.values()}
    while True:
        sig = {i: (part[i], tuple(part[trans[(i, c)]] for c in CLASSES)) for i in part}
        ids = {}
        new = {i: ids.setdefault(sig[i], len(ids)) for i in sorted(part)}
        if len(set(new.values())) == len(set(part.values())): part = new; break
        part = new
    n = len(set(part.values()))
    mt = {(part[i], c): part[trans[(i, c)]] for (i, c) in trans}
    return n, mt, {part[i] for i in acc}, part[0], part[dead]

# state numbers of exec.tryParseNumber, discovered by walking witness words from the start state
CODE = {'': 1, 's': 5, '1': 3, '1.': 2, '1.1': 6, '1e': 7, '1*': 8, '1es': 9, '1*1': 10, '1*^': 11, '1es1': 12, '1*10': 13}

def table():
    n, mt, acc, start, dead = build()
    name = {dead: 0}
    for w, code in CODE.items():
        q = start
        for c in w: q = mt[(q, c)]
        assert q != dead and name.get(q, code) == code, (w, q)
        name[q] = code
    assert len(name) == n, (len(name), n)
    rows = {}
    for (q, c), t in mt.items():
        rows[(name[q], c)] = name[t]
    return rows, sorted(name[a] for a in acc)

def spec():
    rows, acc = table()
    cls = {'s': 1, '1': 2, '0': 3, 'd': 4, '.': 5, 'e': 6, '*': 7, '^': 8, 'x': 9}
    parts = []
    for q in sorted({q for q, _ in rows if q != 0}):
        inner = "0"
        for c in CLASSES:
            t = rows[(q, c)]
            if t != 0:
                inner = f"(c == {cls[c]} ? {t} : {inner})"
        parts.append((q, inner))
    body = "0"
    for q, inner in reversed(parts):
        body = f"(q == {q} ? {inner} : {body})"
    return body, acc

if __name__ == '__main__':
    body, acc = spec()
    line = "//@ fn numDelta(q int, c int) int = " + body
    accl = "//@ fn numAccept(q int) bool = " + " || ".join(f"q == {a}" for a in acc)
    if len(sys.argv) > 1 and sys.argv[1] == '--verify':
        txt = open(sys.argv[2]).read()
        ok = line in txt and accl in txt
        print("numDelta table in contract file matches the regular expression:", ok)
        sys.exit(0 if ok else 1)
    print(line); print(accl)
