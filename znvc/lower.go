package main

// SSA (NaiveForm) -> passive guarded form -> one SMT query per obligation.
// Forward symbolic pass over the loop-cut CFG; see DESIGN.md §2.

import (
	"fmt"
	"go/constant"
	"go/token"
	"go/types"
	"math"
	"sort"
	"strings"

	"golang.org/x/tools/go/ssa"
)

type Val struct {
	S string     // SMT term
	T types.Type // Go type (nil for spec-only values)
	K Sort
}

type Obligation struct {
	Name    string
	Kind    string
	Desc    string
	Pos     string
	Fn      string
	Goal    string // formula that must be UNSAT together with the prefix
	Prefix  int    // number of body lines that precede it
	Vacuity bool   // expected SAT (reachability / precondition satisfiable)
	Evaluated bool // decided by direct evaluation, not by a solver
	// results
	Result string // unsat, sat, unknown, timeout, error
	Solver string
	TimeMs int64
	Model  string
	Output string
	vc     *FnVC
	Props  []string
	ResultTerms []string // post obligations: the SMT terms of the returned values (for replay)
}

const (
	aLocal = iota
	aObj    // pointer to heap struct object
	aField  // field of heap struct object
	aMem    // element of a slice/array backing store
	aBox    // boxed scalar on the heap
	aGlobal // package-level variable
)

type pathSel struct {
	isIdx  bool
	idx    string // SMT index term for arrays
	field  int
	fname  string
	contK  Sort       // sort of the container
	contT  types.Type // type of the container
	elemT  types.Type // type after selection
}

type Addr struct {
	kind  int
	alloc *ssa.Alloc
	key   string // heap key (aField, aMem, aBox, aGlobal)
	ref   string // object ref / base
	idx   string // aMem absolute index
	rootT types.Type
	path  []pathSel
	T     types.Type // type of the addressed value
	stT   types.Type // aObj: struct type
	fieldInv string
	ownerT   types.Type // aField: struct type of the object
	ownerRef string     // aMem: the object whose field holds the slice being written
}

type State struct {
	locals  map[*ssa.Alloc]string
	vars    map[string]string
	epoch   int
	assumes []string
	reach   string
	dead    bool
}

func (s *State) clone() *State {
	n := &State{locals: make(map[*ssa.Alloc]string, len(s.locals)), vars: make(map[string]string, len(s.vars)), epoch: s.epoch, reach: s.reach, dead: s.dead}
	for k, v := range s.locals {
		n.locals[k] = v
	}
	for k, v := range s.vars {
		n.vars[k] = v
	}
	n.assumes = append([]string(nil), s.assumes...)
	return n
}

type LoopInfo struct {
	head   *ssa.BasicBlock
	mod    *recording
	ord    int
	body   map[*ssa.BasicBlock]bool
	tails  []*ssa.BasicBlock
	entryS *State // state right after havoc+assume at loop head (for decreases)
	preS   *State // state before havoc (for frame facts)
	decr0  []string
}

type FnVC struct {
	retTerms []string // SMT terms of the values returned at the return being processed
	eng      *Engine
	fn       *ssa.Function
	con      *Contract
	key      string
	sorts    *Sorts
	decls    []string
	declSeen map[string]bool
	body     []string
	obls     []*Obligation
	regs     map[ssa.Value]Val
	tuples   map[ssa.Value][]Val
	addrs    map[ssa.Value]*Addr
	nfresh   int
	st       *State
	entry    *State
	exitSt   map[*ssa.BasicBlock]*State
	loops    map[*ssa.BasicBlock]*LoopInfo
	keySort  map[string]Sort
	keyOrd   []string
	notes    map[string]bool
	unsup    []string
	occ      map[string]int
	epochN   int
	allocNames map[string][]*ssa.Alloc
	paramVals  map[string]Val
	resultNames []string
	retCount int
	callOcc  map[string]int
	callOrd  map[*ssa.CallCommon]int // call-site ordinals in source order, per witness name
	defers   []*ssa.Defer
	curBlock *ssa.BasicBlock
	curPos   token.Pos
	stale    []string
	trustedUsed map[string]bool
	calleesUsed map[string]bool
	entryAlloc string
	frameTargets []frameTarget // evaluated modifies targets (entry state)
	frameAll bool
	rangeIters map[ssa.Value]*rangeIter
	witKeys map[string]bool
	ptrCells map[*ssa.Alloc]*Addr
	freeVars []*ssa.FreeVar
	freshObjs []freshObj
	afterHavoc bool
	closureEnv map[string]Val
	stableBoxes []stableBox
	curIns      ssa.Instruction      // instruction being lowered
	objInfo     map[string]*freshObj // objects allocated by this function, by reference term
	ownedFields []stableBox // fields of objects allocated here that no callee can reach (escape.go)
	privSlices map[*ssa.Alloc]bool
	invTouched []touchedObj
	axioms []string
	tablesUsed map[string]bool
	tableInfo map[string]*tableInfo
	pins map[string][][2]string
	declBySort map[string][]string
	lastUniq string
	rec *recording
	scratch int
	specErrs []string
}

type frameTarget struct {
	key string
	ref string // "" = whole key
}

type rangeIter struct {
	kind string // "map" or "string"
	m    Val
	visitedKey string
	posKey string
	keyT, valT types.Type
}

type unsupported string

func (vc *FnVC) fail(f string, a ...interface{}) {
	panic(unsupported(fmt.Sprintf(f, a...)))
}

func (vc *FnVC) note(s string) { vc.notes[s] = true }

func (vc *FnVC) declare(name string, sort Sort) {
	if vc.declSeen[name] {
		return
	}
	vc.declSeen[name] = true
	vc.decls = append(vc.decls, fmt.Sprintf("(declare-const %s %s)", name, sort))
	if strings.HasPrefix(sort, "(Array Int ") {
		vc.declBySort[sort] = append(vc.declBySort[sort], name)
		for key, ps := range vc.pins {
			if vc.keySort[key] == sort && (strings.HasPrefix(name, sanitizeKey(key)+"@") || strings.HasPrefix(name, sanitizeKey(key)+"!")) {
				for _, p := range ps {
					vc.axioms = append(vc.axioms, "(assert "+sEq(sSelect(name, p[0]), p[1])+")")
				}
			}
		}
	}
}

func (vc *FnVC) fresh(prefix string, sort Sort) string {
	vc.nfresh++
	n := fmt.Sprintf("%s!%d", sanitizeKey(prefix), vc.nfresh)
	vc.declare(n, sort)
	return n
}

func (vc *FnVC) define(prefix string, sort Sort, term string) string {
	if len(term) < 24 && !strings.Contains(term, " ") {
		return term
	}
	vc.nfresh++
	n := fmt.Sprintf("%s!%d", sanitizeKey(prefix), vc.nfresh)
	vc.body = append(vc.body, fmt.Sprintf("(define-fun %s () %s %s)", n, sort, term))
	return n
}

func (vc *FnVC) assume(f string) {
	if f == "true" || f == "" {
		return
	}
	vc.st.assumes = append(vc.st.assumes, f)
}

func (vc *FnVC) pathCond() string {
	return sAnd(append([]string{vc.st.reach}, vc.st.assumes...)...)
}

func (vc *FnVC) posString() string {
	if vc.curPos.IsValid() {
		p := vc.eng.fset.Position(vc.curPos)
		return fmt.Sprintf("%s:%d", shortPath(p.Filename), p.Line)
	}
	return ""
}

// assert creates an obligation: under the current path condition, cond holds. Then assumes it.
func (vc *FnVC) assert(kind, desc, cond string) *Obligation {
	if cond == "true" {
		return nil
	}
	base := kind + ":" + desc
	vc.occ[base]++
	name := fmt.Sprintf("%s/%s#%d", vc.key, base, vc.occ[base])
	o := &Obligation{Name: name, Kind: kind, Desc: desc, Pos: vc.posString(), Fn: vc.key, Prefix: len(vc.body), vc: vc,
		Goal: sAnd(vc.pathCond(), sNot(cond))}
	if kind == "post" {
		o.ResultTerms = vc.retTerms
	}
	vc.obls = append(vc.obls, o)
	vc.assume(cond)
	return o
}

// cover creates a vacuity obligation: the current point must be reachable (expected SAT).
func (vc *FnVC) cover(kind, desc string) {
	base := kind + ":" + desc
	vc.occ[base]++
	name := fmt.Sprintf("%s/%s#%d", vc.key, base, vc.occ[base])
	o := &Obligation{Name: name, Kind: kind, Desc: desc, Pos: vc.posString(), Fn: vc.key, Prefix: len(vc.body), vc: vc,
		Goal: vc.pathCond(), Vacuity: true}
	vc.obls = append(vc.obls, o)
}

// ---- heap variables ----

func (vc *FnVC) registerKey(key string, sort Sort) {
	if _, ok := vc.keySort[key]; !ok {
		vc.keySort[key] = sort
		vc.keyOrd = append(vc.keyOrd, key)
	}
}

func isHeapKey(key string) bool {
	return strings.HasPrefix(key, "F$") || strings.HasPrefix(key, "Mem$") || strings.HasPrefix(key, "Box$") || strings.HasPrefix(key, "Map") || strings.HasPrefix(key, "G$")
}

func (vc *FnVC) curIn(st *State, key string) string {
	if v, ok := st.vars[key]; ok {
		return v
	}
	sort, ok := vc.keySort[key]
	if !ok {
		panic("unregistered key " + key)
	}
	ep := st.epoch
	if !isHeapKey(key) || vc.eng.immutableGlobalKey(key) || vc.immutableKey(key) {
		ep = 0
	}
	n := fmt.Sprintf("%s@e%d", sanitizeKey(key), ep)
	vc.declare(n, sort)
	return n
}

func sanitizeKey(k string) string {
	var b strings.Builder
	for _, r := range k {
		if r >= 'a' && r <= 'z' || r >= 'A' && r <= 'Z' || r >= '0' && r <= '9' || r == '_' || r == '.' || r == '$' || r == '@' {
			b.WriteRune(r)
		} else if r == '#' {
			b.WriteString("~")
		} else {
			b.WriteString("_")
		}
	}
	return b.String()
}

func (vc *FnVC) cur(key string) string { return vc.curIn(vc.st, key) }

func (vc *FnVC) set(key, term string) {
	sort := vc.keySort[key]
	vc.setRaw(key, vc.define(sanitizeKey(key), sort, term))
}

func (vc *FnVC) setRaw(key, term string) {
	if vc.rec != nil {
		vc.rec.keys[key] = true
	}
	vc.st.vars[key] = term
}

func (vc *FnVC) setLocal(a *ssa.Alloc, term string) {
	if vc.rec != nil {
		vc.rec.locals[a] = true
	}
	vc.st.locals[a] = term
}

func (vc *FnVC) fieldKey(st types.Type, field int) (string, Sort, types.Type) {
	s := st.Underlying().(*types.Struct)
	dt := vc.sorts.sortOf(st)
	f := s.Field(field)
	fs := vc.sorts.sortOf(f.Type())
	key := "F$" + dt[2:] + "$" + sanitize(f.Name())
	vc.registerKey(key, "(Array Int "+fs+")")
	return key, fs, f.Type()
}

// memTypeName: backing stores are separated by Go element type (two slice types with different element types can
// never share a backing array), so that e.g. the immutable syntax tree is not touched by writes to value lists.
func memTypeName(t types.Type) string {
	switch u := t.(type) {
	case *types.Basic:
		return types.Typ[u.Kind()].Name()
	case *types.Alias:
		return memTypeName(types.Unalias(u))
	case *types.Pointer:
		return "P_" + memTypeName(u.Elem())
	case *types.Named:
		if u.Obj().Pkg() != nil {
			return u.Obj().Pkg().Name() + "." + u.Obj().Name()
		}
		return u.Obj().Name()
	case *types.Slice:
		return "S_" + memTypeName(u.Elem())
	case *types.Array:
		return fmt.Sprintf("A%d_", u.Len()) + memTypeName(u.Elem())
	}
	return sanitize(typeKey(t))
}

func (vc *FnVC) memKey(elem types.Type) (string, Sort) {
	es := vc.sorts.sortOf(elem)
	key := "Mem$" + sanitize(memTypeName(elem))
	vc.registerKey(key, "(Array Int (Array Int "+es+"))")
	return key, es
}

func (vc *FnVC) boxKey(elem types.Type) (string, Sort) {
	es := vc.sorts.sortOf(elem)
	key := "Box$" + sortKey(es)
	vc.registerKey(key, "(Array Int "+es+")")
	return key, es
}

func (vc *FnVC) mapKeys(mt *types.Map) (dom, val, ln string, ks, vs Sort) {
	ks = vc.sorts.sortOf(mt.Key())
	vs = vc.sorts.sortOf(mt.Elem())
	// maps of different Go types can never be the same object: separate stores per map type
	tn := sanitize(memTypeName(mt.Key())) + "$" + sanitize(memTypeName(mt.Elem()))
	dom = "MapDom$" + tn
	val = "MapVal$" + tn
	ln = "MapLen$" + tn
	vc.registerKey(dom, "(Array Int (Array "+ks+" Bool))")
	vc.registerKey(val, "(Array Int (Array "+ks+" "+vs+"))")
	vc.registerKey(ln, "(Array Int Int)")
	return
}

func (vc *FnVC) allocKey() string {
	vc.registerKey("$alloc", SInt)
	return "$alloc"
}

func (vc *FnVC) globalKey(g *ssa.Global) (string, types.Type) {
	t := g.Type().(*types.Pointer).Elem()
	key := "G$" + g.Pkg.Pkg.Name() + "." + g.Name()
	vc.registerKey(key, vc.sorts.sortOf(t))
	return key, t
}

// newRef allocates a fresh reference.
func (vc *FnVC) newRef(hint string) string {
	ak := vc.allocKey()
	old := vc.cur(ak)
	r := vc.define(hint, SInt, sx("+", old, "1"))
	vc.setRaw(ak, r)
	return r
}

// ---- type invariants assumed for values coming from outside (params, loads, call results) ----

func (vc *FnVC) typeFacts(v Val) string { return vc.typeFactsIn(vc.st, v) }

// typeFactsIn: facts that hold for any well-typed value present in state st (memory safety: references stored
// anywhere at st were allocated before st).
func (vc *FnVC) typeFactsIn(st *State, v Val) string {
	save := vc.st
	vc.st = st
	defer func() { vc.st = save }()
	if v.T == nil {
		return "true"
	}
	switch u := v.T.Underlying().(type) {
	case *types.Basic:
		if u.Info()&types.IsInteger != 0 {
			lo, hi := intRange(v.T)
			return sAnd(sx("<=", lo, v.S), sx("<=", v.S, hi))
		}
	case *types.Pointer:
		// interior pointers (embedded structs) are negative; their host object was allocated before
		vc.sorts.declareFun("emb.host", "(Int) Int")
		return sAnd(sx("<=", v.S, vc.cur(vc.allocKey())), sImp(sx("<", v.S, "0"), sx("<=", sx("emb.host", v.S), vc.cur(vc.allocKey()))))
	case *types.Map:
		return sAnd(sx("<=", "0", v.S), sx("<=", v.S, vc.cur(vc.allocKey())))
	case *types.Slice:
		return sAnd(sx("<=", "0", sx("sl.off", v.S)), sx("<=", "0", sx("sl.len", v.S)), sx("<=", sx("sl.len", v.S), sx("sl.cap", v.S)),
			sx("<=", sx("sl.cap", v.S), maxLen), sx("<=", "0", sx("sl.base", v.S)), sx("<=", sx("sl.base", v.S), vc.cur(vc.allocKey())),
			sImp(sEq(sx("sl.base", v.S), "0"), sEq(sx("sl.cap", v.S), "0")))
	case *types.Interface:
		f := sAnd(sx("<=", sx("if.ptr", v.S), vc.cur(vc.allocKey())), sImp(sEq(sx("if.tag", v.S), "0"), sEq(sx("if.ptr", v.S), "0")), sx("<=", "0", sx("if.tag", v.S)))
		if vc.isImmutableIface(v.T) {
			// syntax-tree interfaces hold non-nil node pointers (asserted where the parser builds them)
			f = sAnd(f, sImp(sNot(sEq(sx("if.tag", v.S), "0")), sNot(sEq(sx("if.ptr", v.S), "0"))))
		}
		if isErrorType(v.T) {
			// program invariant: a non-nil error never holds a nil pointer (asserted wherever a pointer becomes an error)
			f = sAnd(f, sImp(sNot(sEq(sx("if.tag", v.S), "0")), sNot(sEq(sx("if.ptr", v.S), "0"))))
		}
		return f
	case *types.Signature:
		return sx("<=", sx("fn.env", v.S), vc.cur(vc.allocKey()))
	case *types.Struct:
		var fs []string
		for i := 0; i < u.NumFields(); i++ {
			ft := u.Field(i).Type()
			fs = append(fs, vc.typeFactsIn(st, Val{sx(dtAcc(v.K, u.Field(i).Name()), v.S), ft, vc.sorts.sortOf(ft)}))
		}
		return sAnd(fs...)
	}
	return "true"
}

// ---- constants ----

func f64Lit(f float64) string {
	bits := math.Float64bits(f)
	sign := bits >> 63
	exp := (bits >> 52) & 0x7ff
	man := bits & ((1 << 52) - 1)
	return fmt.Sprintf("(fp #b%b #b%011b #b%052b)", sign, exp, man)
}

func (vc *FnVC) constVal(c *ssa.Const) Val {
	t := c.Type()
	k := vc.sorts.sortOf(t)
	if c.Value == nil {
		return Val{vc.sorts.zero(t), t, k}
	}
	switch c.Value.Kind() {
	case constant.Bool:
		if constant.BoolVal(c.Value) {
			return Val{"true", t, SBool}
		}
		return Val{"false", t, SBool}
	case constant.String:
		return Val{vc.sorts.lit(constant.StringVal(c.Value)), t, SStr}
	case constant.Int:
		if isFloat(t) {
			f, _ := constant.Float64Val(c.Value)
			return Val{f64Lit(f), t, SF64}
		}
		bi, ok := constant.Val(c.Value).(interface{ String() string })
		_ = bi
		_ = ok
		s := c.Value.ExactString()
		if strings.HasPrefix(s, "-") {
			s = "(- " + s[1:] + ")"
		}
		return Val{s, t, SInt}
	case constant.Float:
		if isFloat(t) {
			f, _ := constant.Float64Val(c.Value)
			return Val{f64Lit(f), t, SF64}
		}
		f, _ := constant.Float64Val(c.Value)
		return Val{sInt(int64(f)), t, SInt}
	}
	vc.fail("constant kind %v", c.Value.Kind())
	return Val{}
}

// ---- values ----

func (vc *FnVC) val(v ssa.Value) Val {
	switch x := v.(type) {
	case *ssa.Const:
		return vc.constVal(x)
	case *ssa.Function:
		id := vc.eng.funcID(x)
		return Val{fmt.Sprintf("(mk-func %d 0)", id), x.Type(), SFunc}
	case *ssa.Builtin:
		vc.fail("builtin as value")
	case *ssa.Global:
		vc.fail("address of global %s used as a value", x.Name())
	case *ssa.FreeVar:
		if r, ok := vc.regs[v]; ok {
			return r
		}
	case *ssa.Parameter:
		if r, ok := vc.regs[v]; ok {
			return r
		}
	}
	if r, ok := vc.regs[v]; ok {
		return r
	}
	if a, ok := vc.addrs[v]; ok {
		if a.kind == aObj || a.kind == aBox && len(a.path) == 0 || a.kind == aMem && len(a.path) == 0 && a.idx == "" {
			return Val{a.ref, v.Type(), SInt}
		}
		vc.fail("address %s (%s) used as a value (escapes)", v.Name(), v.Type())
	}
	vc.fail("no value for %s (%T)", v.Name(), v)
	return Val{}
}

func (vc *FnVC) setReg(v ssa.Value, term string) Val {
	k := vc.sorts.sortOf(v.Type())
	name := vc.define(v.Name(), k, term)
	r := Val{name, v.Type(), k}
	vc.regs[v] = r
	return r
}

// ---- addresses ----

func (vc *FnVC) addrOfRef(ref string, ptrT types.Type) *Addr {
	pt, ok := ptrT.Underlying().(*types.Pointer)
	if !ok {
		vc.fail("addrOfRef on non-pointer %s", ptrT)
	}
	el := pt.Elem()
	switch u := el.Underlying().(type) {
	case *types.Struct:
		_ = u
		return &Addr{kind: aObj, ref: ref, stT: el, T: el}
	case *types.Array:
		key, _ := vc.memKey(u.Elem())
		return &Addr{kind: aMem, key: key, ref: ref, idx: "", rootT: u.Elem(), T: el}
	default:
		key, _ := vc.boxKey(el)
		return &Addr{kind: aBox, key: key, ref: ref, rootT: el, T: el}
	}
}

func (vc *FnVC) addrOf(v ssa.Value) *Addr {
	if a, ok := vc.addrs[v]; ok {
		return a
	}
	if g, ok := v.(*ssa.Global); ok {
		key, t := vc.globalKey(g)
		vc.eng.useImmutableGlobal(vc, g)
		return &Addr{kind: aGlobal, key: key, rootT: t, T: t}
	}
	r := vc.val(v)
	return vc.addrOfRef(r.S, v.Type())
}

func (vc *FnVC) nilCheck(a *Addr, what string) {
	switch a.kind {
	case aObj, aField, aBox:
		vc.assert("nil-deref", what, sNot(sEq(a.ref, "0")))
	case aMem:
		if a.idx == "" {
			vc.assert("nil-deref", what, sNot(sEq(a.ref, "0")))
		}
	}
}

// loadRoot reads the root cell of an address in the given state.
func (vc *FnVC) loadRootIn(st *State, a *Addr) string {
	switch a.kind {
	case aLocal:
		if v, ok := st.locals[a.alloc]; ok {
			return v
		}
		return vc.sorts.zero(a.rootT)
	case aField, aBox:
		return sSelect(vc.curIn(st, a.key), a.ref)
	case aMem:
		return sSelect(sSelect(vc.curIn(st, a.key), a.ref), a.idx)
	case aGlobal:
		return vc.curIn(st, a.key)
	}
	panic("loadRoot")
}

func (vc *FnVC) applyPath(root string, path []pathSel) string {
	t := root
	for _, p := range path {
		if p.isIdx {
			t = sSelect(t, p.idx)
		} else {
			t = sx(dtAcc(p.contK, p.fname), t)
		}
	}
	return t
}

func (vc *FnVC) updatePath(root string, path []pathSel, v string) string {
	if len(path) == 0 {
		return v
	}
	p := path[0]
	if p.isIdx {
		inner := vc.updatePath(sSelect(root, p.idx), path[1:], v)
		return sStore(root, p.idx, inner)
	}
	st := p.contT.Underlying().(*types.Struct)
	var fs []string
	for i := 0; i < st.NumFields(); i++ {
		acc := sx(dtAcc(p.contK, st.Field(i).Name()), root)
		if i == p.field {
			fs = append(fs, vc.updatePath(acc, path[1:], v))
		} else {
			fs = append(fs, acc)
		}
	}
	return sx(dtCtor(p.contK), fs...)
}

func (vc *FnVC) loadObj(st *State, ref string, stT types.Type) string {
	s := stT.Underlying().(*types.Struct)
	dt := vc.sorts.sortOf(stT)
	var fs []string
	for i := 0; i < s.NumFields(); i++ {
		if _, isStruct := s.Field(i).Type().Underlying().(*types.Struct); isStruct {
			fs = append(fs, vc.loadObj(st, vc.embRef(stT, i, ref), s.Field(i).Type()))
			continue
		}
		key, _, _ := vc.fieldKey(stT, i)
		fs = append(fs, sSelect(vc.curIn(st, key), ref))
	}
	if len(fs) == 0 {
		return dtCtor(dt)
	}
	return sx(dtCtor(dt), fs...)
}

func (vc *FnVC) load(a *Addr) string { return vc.loadIn(vc.st, a) }

func (vc *FnVC) loadIn(st *State, a *Addr) string {
	if a.kind == aObj {
		return vc.loadObj(st, a.ref, a.stT)
	}
	if a.kind == aMem && a.idx == "" {
		// whole heap array value
		return sSelect(vc.curIn(st, a.key), a.ref)
	}
	return vc.applyPath(vc.loadRootIn(st, a), a.path)
}

func (vc *FnVC) store(a *Addr, v string) {
	if a.kind != aLocal && a.T != nil && a.fieldInv != "nullable" {
		if f := vc.regimeFacts(v, a.T, 0); f != "true" {
			vc.assert("elem-invariant", "stored Element is non-nil", f)
		}
	} else if a.fieldInv == "nullable" && vc.sorts.sortOf(a.T) == SIface {
		vc.assert("elem-invariant", "stored interface value is nil or holds a non-nil pointer", sOr(sEq(sx("if.tag", v), "0"), sNot(sEq(sx("if.ptr", v), "0"))))
	}
	switch a.kind {
	case aObj:
		s := a.stT.Underlying().(*types.Struct)
		dt := vc.sorts.sortOf(a.stT)
		for i := 0; i < s.NumFields(); i++ {
			if _, isStruct := s.Field(i).Type().Underlying().(*types.Struct); isStruct {
				vc.store(&Addr{kind: aObj, ref: vc.embRef(a.stT, i, a.ref), stT: s.Field(i).Type(), T: s.Field(i).Type()}, sx(dtAcc(dt, s.Field(i).Name()), v))
				continue
			}
			key, _, _ := vc.fieldKey(a.stT, i)
			vc.frameCheck(key, a.ref)
			vc.set(key, sStore(vc.cur(key), a.ref, sx(dtAcc(dt, s.Field(i).Name()), v)))
		}
		return
	case aLocal:
		root := vc.loadRootIn(vc.st, a)
		nv := vc.updatePath(root, a.path, v)
		k := vc.sorts.sortOf(a.rootT)
		name := a.alloc.Comment
		if name == "" {
			name = a.alloc.Name()
		}
		vc.setLocal(a.alloc, vc.define(name, k, nv))
	case aField, aBox:
		vc.frameCheck(a.key, a.ref)
		if a.kind == aField && a.ownerT != nil {
			vc.touchObj(a.ref, a.ownerT)
		}
		if a.kind == aField && a.fieldInv == "nonnil" && len(a.path) == 0 {
			// objects allocated by this function may be initialised in several steps; they are checked at return
			vc.assert("field-invariant", a.key+" stays non-nil", sOr(sx(">", a.ref, vc.entryAlloc), nonNilTerm(v, vc.sorts.sortOf(a.T))))
		}
		root := sSelect(vc.cur(a.key), a.ref)
		nv := vc.updatePath(root, a.path, v)
		vc.set(a.key, sStore(vc.cur(a.key), a.ref, nv))
	case aMem:
		vc.frameCheck(a.key, a.ref)
		if len(a.path) == 0 && a.idx != "" && vc.eng.specs.FieldInvs["elem:"+strings.TrimPrefix(a.key, "Mem$")] == "nonnil" {
			vc.assert("field-invariant", a.key+" elements stay non-nil", nonNilTerm(v, vc.sorts.sortOf(a.T)))
		}
		if a.ownerRef != "" {
			vc.touchObj(a.ownerRef, a.ownerT)
		}
		if a.idx == "" {
			vc.set(a.key, sStore(vc.cur(a.key), a.ref, v))
			return
		}
		arr := sSelect(vc.cur(a.key), a.ref)
		root := sSelect(arr, a.idx)
		nv := vc.updatePath(root, a.path, v)
		vc.set(a.key, sStore(vc.cur(a.key), a.ref, sStore(arr, a.idx, nv)))
	case aGlobal:
		vc.frameCheckGlobal(a.key)
		if len(a.path) == 0 && vc.eng.specs.FieldInvs["global:"+strings.TrimPrefix(a.key, "G$")] != "" {
			vc.assert("field-invariant", a.key+" stays non-nil", nonNilTerm(v, vc.sorts.sortOf(a.T)))
		}
		root := vc.cur(a.key)
		vc.set(a.key, vc.updatePath(root, a.path, v))
	}
}

// frameCheck: a write to heap location (key, ref) must be permitted by the function's modifies clause.
func (vc *FnVC) frameCheck(key, ref string) {
	if vc.frameAll {
		return
	}
	allowed := []string{sx(">", ref, vc.entryAlloc)}
	if strings.HasPrefix(key, "F$") && vc.sorts.extraSeen["emb.host"] {
		allowed = append(allowed, sAnd(sx("<", ref, "0"), sx(">", sx("emb.host", ref), vc.entryAlloc)))
		// an embedded struct inside an embedded struct (ID > PrimeExpr > ExprBase)
		allowed = append(allowed, sAnd(sx("<", ref, "0"), sx("<", sx("emb.host", ref), "0"), sx(">", sx("emb.host", sx("emb.host", ref)), vc.entryAlloc)))
	}
	if strings.HasPrefix(key, "Mem$") {
		allowed = append(allowed, sEq(ref, "0")) // the backing store of a nil slice: nothing to write
	}
	for _, t := range vc.frameTargets {
		if t.key != key {
			continue
		}
		if t.ref == "" {
			return
		}
		allowed = append(allowed, sEq(ref, t.ref))
	}
	vc.assert("frame", "write "+key, sOr(allowed...))
}

func (vc *FnVC) frameCheckGlobal(key string) {
	if vc.frameAll {
		return
	}
	for _, t := range vc.frameTargets {
		if t.key == key {
			return
		}
	}
	if vc.fn.Name() == "init" {
		return
	}
	vc.assert("frame", "write "+key, "false")
}

// ---- integer arithmetic with overflow obligations ----

func (vc *FnVC) rangeAssert(kind, desc string, term string, t types.Type) {
	lo, hi := intRange(t)
	vc.assert(kind, desc, sAnd(sx("<=", lo, term), sx("<=", term, hi)))
}

func shortPath(p string) string {
	if i := strings.Index(p, "/pkg/"); i >= 0 {
		return p[i+1:]
	}
	if i := strings.Index(p, "/stdlib/"); i >= 0 {
		return p[i+1:]
	}
	return p
}

func (vc *FnVC) srcText(pos token.Pos, fallback string) string {
	return fallback
}

func sortedKeys[M ~map[string]V, V any](m M) []string {
	var ks []string
	for k := range m {
		ks = append(ks, k)
	}
	sort.Strings(ks)
	return ks
}

// ---- heap type invariant for runtime.Element (DESIGN: "elem regime") ----
// Every r.Element stored in the heap is a non-nil interface holding a non-nil pointer. Assumed at every heap load,
// asserted at every heap store (so it holds inductively for all code under the sweep).

func isRegimeIface(t types.Type) bool {
	n, ok := t.(*types.Named)
	if !ok {
		if a, isAlias := t.(*types.Alias); isAlias {
			return isRegimeIface(types.Unalias(a))
		}
		return false
	}
	if n.Obj().Pkg() == nil {
		return false
	}
	return n.Obj().Pkg().Path() == "github.com/DemoHn/Zn/pkg/runtime" && (n.Obj().Name() == "Element" || n.Obj().Name() == "ExportableElement")
}

func (vc *FnVC) regimeFacts(term string, t types.Type, depth int) string {
	if isRegimeIface(t) {
		return sAnd(sNot(sEq(sx("if.tag", term), "0")), sNot(sEq(sx("if.ptr", term), "0")))
	}
	if depth > 2 {
		return "true"
	}
	if st, ok := t.Underlying().(*types.Struct); ok {
		k := vc.sorts.sortOf(t)
		var fs []string
		for i := 0; i < st.NumFields(); i++ {
			ft := st.Field(i).Type()
			acc := sx(dtAcc(k, st.Field(i).Name()), term)
			fs = append(fs, vc.regimeFacts(acc, ft, depth+1))
			if vc.fieldInvOf(t, i) == "nonnil" {
				fs = append(fs, nonNilTerm(acc, vc.sorts.sortOf(ft)))
			}
		}
		return sAnd(fs...)
	}
	return "true"
}

// zeroArray returns an SMT array term of sort (Array idx es) whose every element is the zero value of elem.
// Constant arrays need a *value* argument in cvc5, so non-literal zero values use a declared constant with an axiom.
func (vc *FnVC) zeroArray(idx Sort, es Sort, zero string) string {
	if zero == "0" || zero == "false" || zero == "true" {
		return "((as const (Array " + idx + " " + es + ")) " + zero + ")"
	}
	name := "zeroarr$" + sortKey(idx) + "$" + sortKey(es)
	if !vc.declSeen[name] {
		vc.declare(name, "(Array "+idx+" "+es+")")
		vc.axioms = append(vc.axioms, fmt.Sprintf("(assert (forall ((i %s)) (! (= (select %s i) %s) :pattern ((select %s i)))))", idx, name, zero, name))
	}
	return name
}

// ---- field invariants (`fieldinv T.f nonnil`): assumed at every load of the field, asserted at every store ----

func (vc *FnVC) fieldInvOf(stT types.Type, field int) string {
	n, ok := stT.(*types.Named)
	if !ok || n.Obj().Pkg() == nil {
		return ""
	}
	st := stT.Underlying().(*types.Struct)
	return vc.eng.specs.FieldInvs[n.Obj().Pkg().Name()+"."+n.Obj().Name()+"."+st.Field(field).Name()]
}

func nonNilTerm(term string, k Sort) string {
	switch k {
	case SInt:
		return sNot(sEq(term, "0"))
	case SFunc:
		return sNot(sEq(sx("fn.id", term), "0"))
	case SIface:
		return sNot(sEq(sx("if.tag", term), "0"))
	case SSlice:
		return sNot(sEq(sx("sl.base", term), "0"))
	}
	return "true"
}

// ---- encapsulated object invariants (`typeinv T expr`) ----
// Assumed for a *T obtained outside T's package (where T's unexported fields cannot be written), and for the
// receiver at an interface dispatch boundary. Inside T's package contracts state the invariant explicitly.

func (vc *FnVC) typeInvFor(t types.Type) (*Clause, *types.Named) {
	pt, ok := t.Underlying().(*types.Pointer)
	if !ok {
		return nil, nil
	}
	n, ok := pt.Elem().(*types.Named)
	if !ok || n.Obj().Pkg() == nil {
		return nil, nil
	}
	c := vc.eng.specs.TypeInvs[n.Obj().Pkg().Name()+"."+n.Obj().Name()]
	return c, n
}

func (vc *FnVC) assumeTypeInv(v Val, force bool) {
	c, n := vc.typeInvFor(v.T)
	if c == nil {
		return
	}
	if !force && vc.eng.writesFieldsOf(vc.fn, n) {
		return // inside the abstraction: the contract states the invariant explicitly
	}
	env := &SpecEnv{vc: vc, vars: map[string]Val{"self": v}, cur: vc.st, old: vc.st, pkg: n.Obj().Pkg(), witFn: vc.key}
	t, err := vc.trySpec(func() string { return env.boolExpr(c.Expr) })
	if err != "" {
		vc.specErrs = append(vc.specErrs, "typeinv "+n.Obj().Name()+": "+err)
		return
	}
	vc.flushSide(env)
	vc.assume(sImp(sNot(sEq(v.S, "0")), t))
	vc.trustedUsed["object invariant of "+n.Obj().Name()+" assumed in functions that never write its fields (encapsulation argument, DESIGN §2.3)"] = true
}

type freshObj struct {
	ref   string
	stT   types.Type
	block *ssa.BasicBlock
	sites map[ssa.Instruction]bool // where the object is handed to other code (escape.go): checked there instead of at return
	rets  map[*ssa.Return]bool     // returns that may return the object
}

// reachableAt: can anybody but this function still see the object when the function returns through block ret?
// Not if it was never handed on along the way and this return does not return it (it is garbage then).
func (fo *freshObj) reachableAt(ret *ssa.BasicBlock) (handedOn, returned bool) {
	for s := range fo.sites {
		if s.Parent() == ret.Parent() && (s.Block() == ret || s.Block().Dominates(ret)) {
			handedOn = true
		}
	}
	if len(ret.Instrs) > 0 {
		if r, ok := ret.Instrs[len(ret.Instrs)-1].(*ssa.Return); ok && fo.rets[r] {
			returned = true
		}
	}
	return
}

// instrBefore: a is executed before b on every path that reaches b.
func instrBefore(a, b ssa.Instruction) bool {
	if a.Block() == b.Block() {
		for _, ins := range a.Block().Instrs {
			if ins == a {
				return a != b
			}
			if ins == b {
				return false
			}
		}
		return false
	}
	return a.Block().Dominates(b.Block())
}

// releaseAt: an object allocated here is about to become reachable for other code at instruction ins: from now on
// the heap regime protects its fields (every store is checked), so they must hold now.
func (vc *FnVC) releaseAt(ins ssa.Instruction) {
	if vc.scratch > 0 {
		return
	}
	for _, fo := range vc.freshObjs {
		if !fo.sites[ins] {
			continue
		}
		first := true
		for s := range fo.sites {
			if s != ins && s.Parent() == ins.Parent() && instrBefore(s, ins) {
				first = false
			}
		}
		if !first {
			continue
		}
		st := fo.stT.Underlying().(*types.Struct)
		for i := 0; i < st.NumFields(); i++ {
			if vc.fieldInvOf(fo.stT, i) != "nonnil" {
				continue
			}
			key, fs, _ := vc.fieldKey(fo.stT, i)
			vc.assert("field-invariant", key+" initialised before the object is handed on", nonNilTerm(sSelect(vc.cur(key), fo.ref), fs))
		}
	}
	// the same for encapsulated invariants of objects allocated here
	if vc.con != nil && vc.con.Helper {
		return
	}
	for ref, fo := range vc.objInfo {
		if !fo.sites[ins] {
			continue
		}
		first := true
		for s := range fo.sites {
			if s != ins && s.Parent() == ins.Parent() && instrBefore(s, ins) {
				first = false
			}
		}
		if !first {
			continue
		}
		pt := types.NewPointer(fo.stT)
		c, n := vc.typeInvFor(pt)
		if c == nil {
			continue
		}
		env := &SpecEnv{vc: vc, vars: map[string]Val{"self": {ref, pt, SInt}}, cur: vc.st, old: vc.entry, pkg: n.Obj().Pkg(), witFn: vc.key}
		var parts []string
		_, err := vc.trySpec(func() string { parts = env.conjuncts(c.Expr, false); return "" })
		if err != "" {
			continue
		}
		vc.flushSide(env)
		for j, p := range parts {
			vc.assert("type-invariant", fmt.Sprintf("%s.%d holds when the object is handed on", n.Obj().Name(), j+1), p)
		}
	}
}

// handedOnBefore: some escape site of the object has been executed before (or is) the instruction being lowered.
func (vc *FnVC) handedOnBefore(fo *freshObj) bool {
	if vc.curIns == nil {
		return true
	}
	for s := range fo.sites {
		if s.Parent() != vc.curIns.Parent() || s == vc.curIns || mayPrecede(s, vc.curIns) {
			return true
		}
	}
	return false
}

// checkFreshObjs: objects allocated by this function satisfy their field invariants when it returns.
func (vc *FnVC) checkFreshObjs(ret *ssa.BasicBlock) {
	for _, fo := range vc.freshObjs {
		if !(fo.block == ret || fo.block.Dominates(ret)) {
			continue
		}
		handedOn, returned := fo.reachableAt(ret)
		if handedOn || !returned {
			continue // checked where it was handed on / unreachable garbage on this path
		}
		st := fo.stT.Underlying().(*types.Struct)
		for i := 0; i < st.NumFields(); i++ {
			if vc.fieldInvOf(fo.stT, i) != "nonnil" {
				continue
			}
			key, fs, _ := vc.fieldKey(fo.stT, i)
			vc.assert("field-invariant", key+" initialised before return", nonNilTerm(sSelect(vc.cur(key), fo.ref), fs))
		}
	}
}

// immutableKey: syntax-tree storage is immutable for every function outside the packages that build the tree.
func (vc *FnVC) immutableKey(k string) bool {
	if ft := vc.eng.frozenTypeOfKey(k); ft != "" {
		return !vc.eng.allocatesType(vc.fn, ft)
	}
	root := vc.fn
	for root.Parent() != nil {
		root = root.Parent()
	}
	if root.Pkg != nil {
		switch root.Pkg.Pkg.Name() {
		case "syntax", "zh":
			return false
		}
	}
	if ft := vc.eng.frozenTypeOfKey(k); ft != "" {
		return !vc.eng.allocatesType(vc.fn, ft)
	}
	return vc.eng.immutableHeapKey(k)
}

type touchedObj struct {
	ref string
	T   types.Type // pointer type *T
}

// touchObj records that this function wrote a field (or a map / slice stored in a field) of the object `ref` of a type
// with an encapsulated invariant; the invariant is then an obligation at every return (kind type-invariant).
func (vc *FnVC) touchObj(ref string, stT types.Type) {
	n, ok := stT.(*types.Named)
	if !ok || n.Obj().Pkg() == nil {
		return
	}
	if vc.eng.specs.TypeInvs[n.Obj().Pkg().Name()+"."+n.Obj().Name()] == nil {
		return
	}
	for _, t := range vc.invTouched {
		if t.ref == ref {
			return
		}
	}
	vc.invTouched = append(vc.invTouched, touchedObj{ref, types.NewPointer(stT)})
}

// fieldOwner: if v is `*(&obj.f)` for an object of a type with an invariant, returns (ref of obj, struct type).
func (vc *FnVC) fieldOwner(v ssa.Value) (string, types.Type, bool) {
	u, ok := v.(*ssa.UnOp)
	if !ok || u.Op != token.MUL {
		return "", nil, false
	}
	fa, ok := u.X.(*ssa.FieldAddr)
	if !ok {
		return "", nil, false
	}
	pt, ok := fa.X.Type().Underlying().(*types.Pointer)
	if !ok {
		return "", nil, false
	}
	a, ok := vc.addrs[fa]
	if !ok || a.kind != aField {
		return "", nil, false
	}
	return a.ref, pt.Elem(), true
}

func (vc *FnVC) checkTouched(ret *ssa.BasicBlock) {
	if vc.con != nil && vc.con.Helper {
		return
	}
	for _, t := range vc.invTouched {
		if fo := vc.objInfo[t.ref]; fo != nil && ret != nil {
			if handedOn, returned := fo.reachableAt(ret); handedOn || !returned {
				continue // checked where it was handed on / an object nobody else can see on this path
			}
		}
		c, n := vc.typeInvFor(t.T)
		if c == nil {
			continue
		}
		env := &SpecEnv{vc: vc, vars: map[string]Val{"self": {t.ref, t.T, SInt}}, cur: vc.st, old: vc.entry, pkg: n.Obj().Pkg(), witFn: vc.key}
		var parts []string
		_, err := vc.trySpec(func() string { parts = env.conjuncts(c.Expr, false); return "" })
		if err != "" {
			vc.specErrs = append(vc.specErrs, "typeinv "+n.Obj().Name()+": "+err)
			continue
		}
		vc.flushSide(env)
		for j, p := range parts {
			vc.assert("type-invariant", fmt.Sprintf("%s.%d", n.Obj().Name(), j+1), sImp(sNot(sEq(t.ref, "0")), p))
		}
	}
}

func isErrorType(t types.Type) bool {
	return types.Identical(t, types.Universe.Lookup("error").Type())
}

func (vc *FnVC) isImmutableIface(t types.Type) bool {
	n, ok := t.(*types.Named)
	if !ok || n.Obj().Pkg() == nil {
		return false
	}
	if _, isI := n.Underlying().(*types.Interface); !isI {
		return false
	}
	return vc.eng.specs.Immutable[n.Obj().Pkg().Name()+"."+n.Obj().Name()]
}

type stableBox struct {
	key string
	ref string
}

// stableCaptured: a variable captured by closures (so it lives on the heap) that is assigned exactly once, by the
// enclosing function, and never by any closure: no call can change it.
func stableCaptured(a *ssa.Alloc) bool {
	if !a.Heap {
		return false
	}
	stores := 0
	for _, r := range *a.Referrers() {
		switch x := r.(type) {
		case *ssa.Store:
			if x.Addr == a {
				stores++
			} else {
				return false // its address is stored somewhere
			}
		case *ssa.UnOp, *ssa.DebugRef:
		case *ssa.MakeClosure:
			fn := x.Fn.(*ssa.Function)
			for i, b := range x.Bindings {
				if b == ssa.Value(a) && i < len(fn.FreeVars) {
					if closureWrites(fn, fn.FreeVars[i], 0) {
						return false
					}
				}
			}
		default:
			return false
		}
	}
	return stores <= 1
}

func closureWrites(fn *ssa.Function, fv *ssa.FreeVar, depth int) bool {
	if depth > 4 {
		return true
	}
	for _, r := range *fv.Referrers() {
		switch x := r.(type) {
		case *ssa.Store:
			if x.Addr == ssa.Value(fv) {
				return true
			}
		case *ssa.UnOp, *ssa.DebugRef:
		case *ssa.MakeClosure:
			inner := x.Fn.(*ssa.Function)
			for i, b := range x.Bindings {
				if b == ssa.Value(fv) && i < len(inner.FreeVars) && closureWrites(inner, inner.FreeVars[i], depth+1) {
					return true
				}
			}
		default:
			return true
		}
	}
	return false
}

// privateSlice: a local slice variable that only ever holds storage allocated by this function (nil, a literal, make,
// or append of itself) and whose value never leaves the function before it returns: no callee can reach its elements.
func privateSlice(a *ssa.Alloc) bool {
	if a.Heap {
		return false
	}
	if _, ok := a.Type().(*types.Pointer).Elem().Underlying().(*types.Slice); !ok {
		return false
	}
	isLoadOf := func(v ssa.Value) bool {
		u, ok := v.(*ssa.UnOp)
		return ok && u.Op == token.MUL && u.X == ssa.Value(a)
	}
	for _, r := range *a.Referrers() {
		switch x := r.(type) {
		case *ssa.DebugRef:
		case *ssa.Store:
			if x.Addr != ssa.Value(a) {
				return false
			}
			switch v := x.Val.(type) {
			case *ssa.Const:
				if v.Value != nil {
					return false
				}
			case *ssa.Call:
				b, ok := v.Call.Value.(*ssa.Builtin)
				if !ok || b.Name() != "append" || !isLoadOf(v.Call.Args[0]) {
					return false
				}
			case *ssa.Slice:
				al, ok := v.X.(*ssa.Alloc)
				if !ok || !al.Heap {
					return false
				}
			case *ssa.MakeSlice:
			default:
				return false
			}
		case *ssa.UnOp:
			// every use of the loaded value
			for _, ur := range *x.Referrers() {
				switch y := ur.(type) {
				case *ssa.Store:
					// spilling the value into the (unnamed) result cell just before returning
					ra, ok := y.Addr.(*ssa.Alloc)
					if !ok || ra.Comment != "" || ra.Heap || y.Val != ssa.Value(x) {
						return false
					}
				case *ssa.DebugRef, *ssa.Return, *ssa.IndexAddr, *ssa.Slice:
					if sl, ok := y.(*ssa.Slice); ok {
						_ = sl
						return false // a sub-slice may escape
					}
				case *ssa.Call:
					b, ok := y.Call.Value.(*ssa.Builtin)
					if !ok {
						return false
					}
					switch b.Name() {
					case "len", "cap":
					case "append":
						if y.Call.Args[0] != ssa.Value(x) {
							return false
						}
					default:
						return false
					}
				default:
					return false
				}
			}
		default:
			return false
		}
	}
	return true
}

// declareRuneFns declares the character view of strings: gs.runeCount(s) = len([]rune(s)), gs.runeAtIdx(s,i) = []rune(s)[i].
func (vc *FnVC) declareRuneFns() {
	vc.sorts.declareFun("gs.runeCount", "(Str) Int")
	vc.sorts.declareFun("gs.runeAtIdx", "(Str Int) Int")
	if !vc.declSeen["axiom:runeCount"] {
		vc.declSeen["axiom:runeCount"] = true
		vc.axioms = append(vc.axioms, "(assert (forall ((s Str)) (! (and (<= 0 (gs.runeCount s)) (<= (gs.runeCount s) (gs.len s))) :pattern ((gs.runeCount s)))))")
	}
}

// mayPrecede: some execution runs instruction a before instruction b (a path leads from a to b).
func mayPrecede(a, b ssa.Instruction) bool {
	if a.Block() == b.Block() {
		for _, ins := range a.Block().Instrs {
			if ins == a {
				if a != b {
					return true
				}
			}
			if ins == b {
				break
			}
		}
		// a comes after b in the same block: only through a cycle back to the block
	}
	seen := map[*ssa.BasicBlock]bool{}
	var dfs func(x *ssa.BasicBlock) bool
	dfs = func(x *ssa.BasicBlock) bool {
		for _, n := range x.Succs {
			if n == b.Block() {
				return true
			}
			if !seen[n] {
				seen[n] = true
				if dfs(n) {
					return true
				}
			}
		}
		return false
	}
	return dfs(a.Block())
}
