package main

// Property checks: contract group -> obligations -> verdict against ledger / known findings -> evidence.

import (
	"encoding/json"
	"os/exec"
	"flag"
	"fmt"
	"os"
	"path/filepath"
	"regexp"
	"sort"
	"strconv"
	"strings"
	"time"

	"golang.org/x/tools/go/ssa"
)

type PropConfig struct {
	ID        string   `json:"id"`
	Title     string   `json:"title"`
	Functions []string `json:"functions"` // regexps over function keys
	Exclude   []string `json:"exclude"`
	Clauses   []string `json:"clauses_claimed"`
	Unclaimed []string `json:"clauses_not_claimed"`
	Assume    []string `json:"assumptions"`
	Inventory []string `json:"inventories"` // named mechanical inventories to run
}

type LedgerEntry struct {
	Solver string `json:"solver"`
	Ms     int64  `json:"ms"`
	Kind   string `json:"kind"`
}

type Ledger struct {
	Property    string                 `json:"property"`
	RepoCommit  string                 `json:"repo_commit"`
	Obligations map[string]LedgerEntry `json:"obligations"`
	Verified    map[string]bool        `json:"functions_fully_discharged"`
}

type KnownFinding struct {
	Property   string `json:"property"`
	Obligation string `json:"obligation"` // obligation name, with or without the #occurrence suffix
	What       string `json:"what"`
	Witness    string `json:"witness,omitempty"`        // Zn program demonstrating the defect on the real interpreter
	Expect     string `json:"witness_expect,omitempty"` // substring of the runner's output when the defect is present
}

type KnownFile struct {
	Findings []KnownFinding `json:"findings"`
	Fixed    []string       `json:"fixed"`
}

func verifRoot() string {
	if d := os.Getenv("VERIF_ROOT"); d != "" {
		return d
	}
	return "/verif"
}

func readJSON(path string, v interface{}) error {
	data, err := os.ReadFile(path)
	if err != nil {
		return err
	}
	return json.Unmarshal(data, v)
}

func writeJSON(path string, v interface{}) error {
	data, err := json.MarshalIndent(v, "", " ")
	if err != nil {
		return err
	}
	os.MkdirAll(filepath.Dir(path), 0o755)
	return os.WriteFile(path, append(data, '\n'), 0o644)
}

func oblOK(o *Obligation) bool {
	if o.Vacuity {
		return o.Result == "sat" || o.Result == "unknown-not-refuted"
	}
	return o.Result == "unsat"
}

func cmdCheck(args []string) {
	fs := flag.NewFlagSet("check", flag.ExitOnError)
	repo := fs.String("repo", "/repo", "repository root")
	prop := fs.String("prop", "", "property id")
	tier := fs.String("tier", "quick", "quick|thorough")
	update := fs.Bool("update-ledger", false, "record the obligations discharged by this run as the ledger (unchanged tree only)")
	par := fs.Int("j", 16, "parallel queries")
	fs.Parse(args)
	if *prop == "" {
		fmt.Println("check: -prop required")
		os.Exit(2)
	}
	if t := os.Getenv("VERIF_TIER"); t == "quick" || t == "thorough" {
		*tier = t
	}
	seed := 0
	if s := os.Getenv("VERIF_SEED"); s != "" {
		seed, _ = strconv.Atoi(s)
	}
	t0 := time.Now()
	root := verifRoot()
	var cfg PropConfig
	if err := readJSON(filepath.Join(root, "props", *prop+".json"), &cfg); err != nil {
		fmt.Println("check: cannot read property config:", err)
		os.Exit(2)
	}
	eng, err := loadEngine(*repo)
	if err != nil {
		// the tree does not load (compile error): not a verdict about the property
		fmt.Println("CHECK-ERROR: repository does not load with -tags verif:", err)
		os.Exit(2)
	}
	loadS := time.Since(t0).Seconds()
	var res, exc []*regexp.Regexp
	for _, r := range cfg.Functions {
		res = append(res, regexp.MustCompile(r))
	}
	for _, r := range cfg.Exclude {
		exc = append(exc, regexp.MustCompile(r))
	}
	var fns []*ssa.Function
	for k, f := range eng.funcs {
		if f.Blocks == nil {
			continue
		}
		m := false
		for _, r := range res {
			if r.MatchString(k) {
				m = true
			}
		}
		for _, r := range exc {
			if r.MatchString(k) {
				m = false
			}
		}
		if m {
			fns = append(fns, f)
		}
	}
	sort.Slice(fns, func(i, j int) bool { return fnKey(fns[i]) < fnKey(fns[j]) })

	timeout := 10000
	if *tier == "thorough" {
		timeout = 60000
	}
	var vcs []*FnVC
	var obls []*Obligation
	for _, f := range fns {
		for _, vc := range eng.buildAll(f) {
			vcs = append(vcs, vc)
			obls = append(obls, vc.obls...)
		}
	}
	invVC := &FnVC{eng: eng, key: "inventory", sorts: newSorts(eng.tags), notes: map[string]bool{}, trustedUsed: map[string]bool{}, fn: nil}
	for _, o := range eng.runInventories(cfg.Inventory) {
		o.vc = invVC
		invVC.obls = append(invVC.obls, o)
		obls = append(obls, o)
	}
	if len(invVC.obls) > 0 {
		vcs = append(vcs, invVC)
	}
	tS := time.Now()
	dischargeAll(obls, timeout, *par, *tier == "thorough")
	// second chance for non-discharged obligations at a longer timeout (solver jitter must not raise an alarm)
	var knownPre KnownFile
	readJSON(filepath.Join(root, "known-findings.json"), &knownPre)
	expectedFail := func(name string) bool {
		for _, k := range knownPre.Findings {
			if k.Property == *prop && (k.Obligation == name || k.Obligation == clauseOf(name)) {
				return true
			}
		}
		return false
	}
	// only obligations whose failure would be a violation are worth the long timeouts (in -update-ledger mode: all)
	var preLedger Ledger
	readJSON(filepath.Join(root, "ledger", *prop+".json"), &preLedger)
	preClauses := map[string]bool{}
	for name := range preLedger.Obligations {
		preClauses[clauseOf(name)] = true
	}
	matters := func(o *Obligation) bool {
		if *update {
			return true
		}
		_, in := preLedger.Obligations[o.Name]
		return in || preClauses[clauseOf(o.Name)] || preLedger.Verified[o.Fn]
	}
	var retry []*Obligation
	for _, o := range obls {
		if !oblOK(o) && !o.Vacuity && o.Result != "sat" && !o.Evaluated && !expectedFail(o.Name) && matters(o) {
			retry = append(retry, o)
		}
	}
	if len(retry) > 0 && len(retry) <= 40 && *tier == "quick" {
		for _, o := range retry {
			o.Result, o.Solver, o.Output, o.Model = "", "", "", ""
		}
		dischargeAll(retry, 30000, *par, false)
		// third chance, few at a time, for obligations that still time out (a loaded machine must not raise an alarm)
		var again []*Obligation
		for _, o := range retry {
			if !oblOK(o) && o.Result != "sat" {
				again = append(again, o)
			}
		}
		if len(again) > 0 && len(again) <= 12 {
			for _, o := range again {
				o.Result, o.Solver, o.Output, o.Model = "", "", "", ""
			}
			dischargeAll(again, 90000, 4, false)
		}
	}
	solveS := time.Since(tS).Seconds()

	// ledger
	var ledger Ledger
	ledgerPath := filepath.Join(root, "ledger", *prop+".json")
	haveLedger := readJSON(ledgerPath, &ledger) == nil
	var known KnownFile
	readJSON(filepath.Join(root, "known-findings.json"), &known)
	isKnown := func(name string) *KnownFinding {
		for i := range known.Findings {
			k := &known.Findings[i]
			if k.Property == *prop && (k.Obligation == name || k.Obligation == clauseOf(name)) {
				return k
			}
		}
		return nil
	}
	witnessCache := map[string]string{}

	if *update {
		nl := Ledger{Property: *prop, Obligations: map[string]LedgerEntry{}, Verified: map[string]bool{}}
		for _, vc := range vcs {
			all := len(vc.unsup) == 0 && len(vc.specErrs) == 0
			for _, o := range vc.obls {
				if o.Vacuity {
					continue
				}
				if oblOK(o) {
					nl.Obligations[o.Name] = LedgerEntry{Solver: o.Solver, Ms: o.TimeMs, Kind: o.Kind}
				} else {
					all = false
				}
			}
			nl.Verified[vc.key] = all
		}
		writeJSON(ledgerPath, nl)
		ledger = nl
		haveLedger = true
		fmt.Printf("ledger updated: %d obligations, %d functions\n", len(nl.Obligations), len(nl.Verified))
	}
	if !haveLedger {
		fmt.Println("CHECK-ERROR: no ledger for", *prop)
		os.Exit(2)
	}

	// verdicts
	type vio struct {
		o      *Obligation
		reason string
	}
	var violations []vio
	var undecided, staleList, knownHit, vacuous, unsupportedFns, genErrors []string
	seenKnown := map[string]bool{}
	nLedger, nLedgerOK := 0, 0
	bySolver := map[string]int{}
	var solverMs int64
	byKind := map[string]int{}
	present := map[string]bool{}
	ledgerClauses := map[string]bool{}
	for name := range ledger.Obligations {
		ledgerClauses[clauseOf(name)] = true
	}
	for _, vc := range vcs {
		if len(vc.unsup) > 0 {
			unsupportedFns = append(unsupportedFns, vc.key+": "+strings.Join(vc.unsup, "; "))
		}
		for _, s := range vc.specErrs {
			staleList = append(staleList, s)
		}
		staleList = append(staleList, vc.stale...)
		for _, o := range vc.obls {
			present[o.Name] = true
			solverMs += o.TimeMs
			if o.Vacuity {
				if !oblOK(o) {
					vacuous = append(vacuous, o.Name+" ("+o.Result+")")
				}
				continue
			}
			_, inLedger := ledger.Obligations[o.Name]
			if inLedger {
				nLedger++
			}
			if oblOK(o) {
				if inLedger {
					nLedgerOK++
					bySolver[o.Solver]++
					byKind[o.Kind]++
				}
				continue
			}
			if k := isKnown(o.Name); k != nil {
				if !seenKnown[k.Obligation] {
					seenKnown[k.Obligation] = true
					line := fmt.Sprintf("KNOWN-FINDING: property=%s %s — %s", *prop, k.Obligation, k.What)
					if k.Witness != "" {
						out, ok := witnessCache[k.Witness]
						if !ok {
							out = runZnWitness(*repo, root, k.Witness)
							witnessCache[k.Witness] = out
						}
						if k.Expect != "" && strings.Contains(out, k.Expect) {
							line += " [witness program re-run on the real interpreter: defect reproduced: " + firstLines(out, 1) + "]"
						} else {
							line += " [witness program re-run: outcome now: " + firstLines(out, 1) + "]"
						}
					}
					knownHit = append(knownHit, line)
				}
				continue
			}
			switch {
			case o.Result == "solver-error":
				genErrors = append(genErrors, o.Name+": "+firstLines(o.Output, 2))
			case inLedger:
				violations = append(violations, vio{o, "obligation proved on the unchanged tree no longer discharges (" + o.Result + ")"})
			case ledgerClauses[clauseOf(o.Name)]:
				// the same contract clause / safety condition was proved at every check point on the unchanged tree;
				// the changed code has a check point (a new return, back edge or occurrence) where it fails
				violations = append(violations, vio{o, "contract clause proved on the unchanged tree fails at a new check point of the changed code (" + o.Result + ")"})
			case ledger.Verified[o.Fn]:
				violations = append(violations, vio{o, "function was fully verified on the unchanged tree; the changed body has an obligation that does not discharge (" + o.Result + ")"})
			default:
				u := o.Name + " (" + o.Result + ")"
				if o.Evaluated && o.Model != "" {
					u += "\n    " + strings.ReplaceAll(o.Model, "\n", "\n    ")
				}
				undecided = append(undecided, u)
			}
		}
	}
	// a requires clause that became unsatisfiable makes every proof of that function vacuous: the check is broken
	broken := false
	for _, v := range vacuous {
		if strings.Contains(v, "/requires-sat:") && strings.Contains(v, "(unsat)") {
			broken = true
		}
	}
	var missing []string
	for name := range ledger.Obligations {
		if !present[name] {
			missing = append(missing, name)
		}
	}
	sort.Strings(missing)

	for _, l := range knownHit {
		fmt.Println(l)
	}
	for _, u := range undecided {
		fmt.Println("UNDECIDED obligation=" + u)
	}
	for _, s := range staleList {
		fmt.Println("STALE-CONTRACT " + s)
	}
	for _, s := range unsupportedFns {
		fmt.Println("OUT-OF-SUBSET " + s)
	}
	for _, v := range vacuous {
		fmt.Println("VACUITY-WARNING " + v)
	}
	if len(missing) > 0 {
		fmt.Printf("NOTE %d ledger obligations no longer exist in the current tree (code changed): e.g. %s\n", len(missing), missing[0])
	}
	// replay files
	replayDir := filepath.Join(root, "replays", *prop)
	if len(violations) > 0 {
		os.MkdirAll(replayDir, 0o755)
	}
	reported := map[string]bool{}
	for _, v := range violations {
		fname := strings.NewReplacer("/", "_", "(", "", ")", "", "*", "", ":", "_", " ", "_", "#", "-").Replace(v.o.Name) + ".txt"
		path := filepath.Join(replayDir, fname)
		confirmed, text := eng.replay(v.o)
		var b strings.Builder
		fmt.Fprintf(&b, "property: %s\nobligation: %s\nkind: %s\nposition: %s\nreason: %s\nsolver result: %s (%s)\n", *prop, v.o.Name, v.o.Kind, v.o.Pos, v.reason, v.o.Result, v.o.Solver)
		fmt.Fprintf(&b, "replay on the real code: %s\n\n%s\n\n--- solver output ---\n%s\n%s\n", confirmed, text, v.o.Output, v.o.Model)
		os.WriteFile(path, []byte(b.String()), 0o644)
		os.WriteFile(strings.TrimSuffix(path, ".txt")+".smt2", []byte(v.o.vc.script(v.o, true)), 0o644)
		if reported[v.o.Fn+v.o.Kind] {
			continue
		}
		reported[v.o.Fn+v.o.Kind] = true
		suffix := ""
		if confirmed != "confirmed" {
			suffix = " no-failing-input-found"
		}
		fmt.Printf("VIOLATION property=%s replay=%s obligation=%s%s\n", *prop, path, v.o.Name, suffix)
	}

	// evidence
	var samples []map[string]interface{}
	cnt := 0
	for _, o := range obls {
		if o.Vacuity || !oblOK(o) {
			continue
		}
		if _, ok := ledger.Obligations[o.Name]; !ok {
			continue
		}
		if cnt%max(1, nLedger/6) == 0 && len(samples) < 8 {
			samples = append(samples, map[string]interface{}{"obligation": o.Name, "kind": o.Kind, "position": o.Pos, "result": o.Result, "solver": o.Solver, "ms": o.TimeMs, "smt_bytes": len(o.vc.script(o, false))})
		}
		cnt++
	}
	trusted := map[string]bool{"znvc VC generator (this repository, /verif/znvc)": true, "golang.org/x/tools/go/ssa v0.29.0 (NaiveForm)": true,
		"SMT solvers: z3 5.1.0 (z3-new), cvc5 1.0.3, z3 4.8.12": true}
	notes := map[string]bool{}
	var fnList []map[string]interface{}
	for _, vc := range vcs {
		for k := range vc.trustedUsed {
			trusted[k] = true
		}
		for n := range vc.notes {
			notes[n] = true
		}
		ninstr := 0
		if vc.fn != nil {
			for _, b := range vc.fn.Blocks {
				ninstr += len(b.Instrs)
			}
		}
		nob, nok := 0, 0
		for _, o := range vc.obls {
			if !o.Vacuity {
				nob++
				if oblOK(o) {
					nok++
				}
			}
		}
		fnList = append(fnList, map[string]interface{}{"function": vc.key, "ssa_instructions": ninstr, "has_contract": vc.con != nil, "obligations": nob, "discharged": nok, "out_of_subset": len(vc.unsup) > 0})
	}
	assumptions := append([]string{}, cfg.Assume...)
	assumptions = append(assumptions,
		"integers are mathematical with an overflow obligation on every + - * conversion (so machine and mathematical semantics coincide where those discharge)",
		"slice/string lengths are bounded by 2^47 (linux/amd64 address space)",
		"pointers read from parameters/heap refer to allocated objects (Go memory safety)",
		"strings are an uninterpreted sort (length, bytes, equality); fmt.Sprintf and other library text functions are opaque",
		"contract quantifiers range over integers (indices), never over unallocated references",
		"termination is proved only where a decreases clause is given; other contracts are partial-correctness")
	for n := range notes {
		assumptions = append(assumptions, n)
	}
	for _, inv := range cfg.Inventory {
		if inv == "map-range" {
			assumptions = append(assumptions, eng.mapRangeAssumed()...)
		}
	}
	sort.Strings(assumptions[len(cfg.Assume):])
	ev := map[string]interface{}{
		"property_id": *prop, "tier": *tier, "seed": seed, "level": "proof",
		"coverage": map[string]interface{}{
			"obligations": nLedger, "discharged": nLedgerOK,
			"checker_cmd":  fmt.Sprintf("/verif/bin/znvc check -prop %s -tier %s   (one SMT-LIB query per obligation; solvers raced: z3-new, cvc5, z3)", *prop, *tier),
			"trusted_base": sortedKeys(trusted),
			"samples":      samples,
			"functions_under_contract": fnList,
			"obligations_by_kind": byKind, "discharged_by_solver": bySolver, "solver_time_ms_total": solverMs,
			"obligations_generated_this_run": len(obls), "vacuity_checks_not_refuted": countVac(obls) - len(vacuous), "vacuity_warnings": vacuous,
			"known_finding_obligations": knownHit, "undecided_obligations": undecided, "stale_contracts": staleList, "out_of_subset_functions": unsupportedFns,
			"ledger_obligations_missing_in_tree": len(missing),
			"clauses_claimed": cfg.Clauses, "clauses_not_claimed": cfg.Unclaimed,
			"explanation": "Every obligation is a verification condition generated from the go/ssa form of the function in /repo's working tree under its //@ contract; discharged means an SMT solver proved it valid for all inputs.",
			"load_s": loadS, "solve_s": solveS,
		},
		"assumptions": assumptions, "wall_s": time.Since(t0).Seconds(), "violations": len(violations),
	}
	writeJSON(filepath.Join(root, "evidence", *prop+".json"), ev)
	fmt.Printf("%s tier=%s functions=%d obligations(ledger)=%d discharged=%d known-findings=%d undecided=%d violations=%d wall=%.1fs\n",
		*prop, *tier, len(vcs), nLedger, nLedgerOK, len(knownHit), len(undecided), len(violations), time.Since(t0).Seconds())
	if len(genErrors) > 0 {
		for _, g := range genErrors {
			fmt.Println("GENERATOR-ERROR " + g)
		}
		fmt.Println("CHECK-ERROR: malformed solver queries (znvc bug); no verdict")
		os.Exit(2)
	}
	if broken {
		fmt.Println("CHECK-ERROR: a precondition is unsatisfiable (vacuous proofs)")
		os.Exit(2)
	}
	if nLedger == 0 {
		fmt.Println("CHECK-ERROR: zero ledger obligations were generated for this property")
		os.Exit(2)
	}
	if len(violations) > 0 {
		os.Exit(1)
	}
}

func countVac(obls []*Obligation) int {
	n := 0
	for _, o := range obls {
		if o.Vacuity {
			n++
		}
	}
	return n
}

// runInventories: mechanical whole-module inventories a property relies on; each is an obligation decided by evaluation.
func (eng *Engine) runInventories(names []string) []*Obligation {
	var out []*Obligation
	for _, n := range names {
		switch n {
		case "frozen-values":
			bad := eng.inventoryFrozen()
			o := &Obligation{Name: "inventory/frozen-values:fields of frozen types are written only where the object is allocated#1", Kind: "inventory", Fn: "inventory/frozen-values", Evaluated: true, Solver: "eval", Result: "unsat"}
			if len(bad) > 0 {
				o.Result = "sat"
				o.Model = strings.Join(bad, "\n")
			}
			out = append(out, o)
		case "ast-immutable":
			bad := eng.inventoryImmutable(map[string]bool{"syntax": true, "zh": true})
			o := &Obligation{Name: "inventory/ast-immutable:no store to a syntax-tree field outside the parser#1", Kind: "inventory", Fn: "inventory/ast-immutable", Evaluated: true, Solver: "eval", Result: "unsat"}
			if len(bad) > 0 {
				o.Result = "sat"
				o.Model = "stores to syntax-tree data outside packages syntax/zh:\n" + strings.Join(bad, "\n")
			}
			out = append(out, o)
		case "map-range":
			out = append(out, eng.inventoryMapRange()...)
		case "nondet-source":
			out = append(out, eng.inventoryNondet()...)
		case "predefined-values":
			out = append(out, eng.inventoryPredefined()...)
		case "global-writes":
			out = append(out, eng.inventoryGlobalWrites()...)
		case "scope-discipline":
			out = append(out, eng.inventoryScopeDiscipline()...)
		}
	}
	return out
}

// clauseOf strips the occurrence counter: "pkg.f/post:tag#3" -> "pkg.f/post:tag".
func clauseOf(name string) string {
	if i := strings.LastIndex(name, "#"); i >= 0 {
		return name[:i]
	}
	return name
}

// runZnWitness runs one Zn program through the real interpreter of the working tree (go test -overlay, fresh process).
func runZnWitness(repo, root, source string) string {
	dir, err := os.MkdirTemp("", "znwit")
	if err != nil {
		return "witness runner error: " + err.Error()
	}
	defer os.RemoveAll(dir)
	// a witness may be a sequence of programs run one after the other in the same process (state leaking from one
	// execution into the next is what some findings are about); the last program's outcome is reported
	parts := strings.Split(source, "\n-----next-program-----\n")
	var list []map[string]string
	for i, src := range parts {
		name := fmt.Sprintf("pre%d", i+1)
		if i == len(parts)-1 {
			name = "witness"
		}
		list = append(list, map[string]string{"name": name, "source": src})
	}
	progs, _ := json.Marshal(list)
	os.WriteFile(filepath.Join(dir, "in.json"), progs, 0o644)
	ov := fmt.Sprintf(`{"Replace":{"%s/pkg/exec/zz_znrun_test.go":"%s/tools/znrun/znrun_test.go"}}`, repo, root)
	os.WriteFile(filepath.Join(dir, "ov.json"), []byte(ov), 0o644)
	cmd := exec.Command("go", "test", "-overlay", filepath.Join(dir, "ov.json"), "-vet=off", "-count=1", "-timeout", "60s", "-v", "-run", "TestZnvcRun", "./pkg/exec")
	cmd.Dir = repo
	cmd.Env = append(os.Environ(), "ZNRUN_IN="+filepath.Join(dir, "in.json"), "GOFLAGS=-mod=mod", "GOPROXY=off", "GOSUMDB=off", "GOTOOLCHAIN=local")
	out, _ := cmd.CombinedOutput()
	for _, ln := range strings.Split(string(out), "\n") {
		if strings.HasPrefix(ln, "ZNRUN witness ") {
			return strings.TrimPrefix(ln, "ZNRUN witness ")
		}
	}
	return "witness runner produced no result: " + firstLines(string(out), 3)
}
