package main

import (
	"bytes"
	"context"
	"fmt"
	"os"
	"os/exec"
	"path/filepath"
	"strings"
	"sync"
	"time"
)

type solverSpec struct {
	name string
	argv func(timeoutMs int, file string) []string
}

var solvers = []solverSpec{
	{"z3-new", func(t int, f string) []string { return []string{"z3-new", fmt.Sprintf("-t:%d", t), f} }},
	{"cvc5", func(t int, f string) []string {
		return []string{"cvc5", "--lang=smt2", fmt.Sprintf("--tlimit=%d", t), "--fp-exp", f}
	}},
	{"z3", func(t int, f string) []string { return []string{"z3", fmt.Sprintf("-t:%d", t), f} }},
}

type solveResult struct {
	status string // unsat sat unknown timeout error
	solver string
	ms     int64
	output string
}

func runSolver(s solverSpec, script string, timeoutMs int, dir string, tag string) solveResult {
	f := filepath.Join(dir, tag+"."+s.name+".smt2")
	if err := os.WriteFile(f, []byte(script), 0o644); err != nil {
		return solveResult{status: "error", solver: s.name, output: err.Error()}
	}
	defer os.Remove(f)
	ctx, cancel := context.WithTimeout(context.Background(), time.Duration(timeoutMs+2000)*time.Millisecond)
	defer cancel()
	argv := s.argv(timeoutMs, f)
	cmd := exec.CommandContext(ctx, argv[0], argv[1:]...)
	var out bytes.Buffer
	cmd.Stdout = &out
	cmd.Stderr = &out
	t0 := time.Now()
	_ = cmd.Run()
	ms := time.Since(t0).Milliseconds()
	text := out.String()
	first := ""
	for _, ln := range strings.Split(text, "\n") {
		ln = strings.TrimSpace(ln)
		if ln == "" || strings.HasPrefix(ln, "WARNING") || strings.HasPrefix(ln, "(warning") {
			continue
		}
		first = ln
		break
	}
	st := "error"
	switch {
	case first == "unsat":
		st = "unsat"
	case first == "sat":
		st = "sat"
	case first == "unknown":
		st = "unknown"
	case first == "timeout" || ctx.Err() != nil || strings.Contains(text, "interrupted") || strings.Contains(text, "timeout"):
		st = "timeout"
	}
	return solveResult{status: st, solver: s.name, ms: ms, output: text}
}

// discharge runs the staged solver portfolio on one obligation.
func discharge(o *Obligation, timeoutMs int, dir string, idx int, allSolvers bool) {
	if o.Evaluated {
		return
	}
	script := o.vc.script(o, true)
	tag := fmt.Sprintf("q%d", idx)
	want := "unsat"
	if o.Vacuity {
		want = "sat"
	}
	var tried []solveResult
	for i, s := range solvers {
		t := timeoutMs
		if o.Vacuity && t > 2000 {
			t = 2000 // reachability covers: a quick model search; "unknown" is accepted as not refuted
		}
		_ = i
		r := runSolver(s, script, t, dir, tag)
		tried = append(tried, r)
		o.TimeMs += r.ms
		if r.status == want {
			o.Result, o.Solver = r.status, s.name
			if !allSolvers {
				return
			}
			continue
		}
		if r.status == "sat" || r.status == "unsat" {
			// definite answer (not the wanted one)
			o.Result, o.Solver, o.Output = r.status, s.name, r.output
			if r.status == "sat" {
				o.Model = r.output
			}
			return
		}
		if o.Vacuity && (r.status == "unknown" || r.status == "timeout") {
			// reachability with quantifiers: unknown is accepted as "not refuted" (reported as such)
			o.Result, o.Solver = "unknown-not-refuted", s.name
			return
		}
	}
	if o.Result == want {
		return
	}
	// none decided
	o.Result = "unknown"
	var outs []string
	for _, r := range tried {
		if r.status == "timeout" {
			o.Result = "timeout"
		}
		outs = append(outs, fmt.Sprintf("[%s %s %dms] %s", r.solver, r.status, r.ms, firstLines(r.output, 3)))
		if r.status == "unknown" && o.Model == "" && strings.Contains(r.output, "define-fun") {
			o.Model = r.output
		}
	}
	for _, r := range tried {
		if r.status == "unknown" {
			o.Result = "unknown"
		}
	}
	allErr := true
	for _, r := range tried {
		if r.status != "error" {
			allErr = false
		}
	}
	if allErr {
		o.Result = "solver-error" // malformed query: a generator bug, never a verdict about the code
	}
	o.Output = strings.Join(outs, "\n")
}

func firstLines(s string, n int) string {
	ls := strings.Split(strings.TrimSpace(s), "\n")
	if len(ls) > n {
		ls = ls[:n]
	}
	return strings.Join(ls, " | ")
}

func dischargeAll(obls []*Obligation, timeoutMs int, par int, allSolvers bool) {
	dir, err := os.MkdirTemp("", "znvc")
	if err != nil {
		panic(err)
	}
	defer os.RemoveAll(dir)
	var wg sync.WaitGroup
	sem := make(chan struct{}, par)
	for i, o := range obls {
		wg.Add(1)
		sem <- struct{}{}
		go func(i int, o *Obligation) {
			defer wg.Done()
			defer func() { <-sem }()
			discharge(o, timeoutMs, dir, i, allSolvers)
		}(i, o)
	}
	wg.Wait()
}
