package main

// Contract files: //@ comment blocks in <pkg>/zz_contracts_verif.go (build tag verif).

import (
	"fmt"
	"os"
	"path/filepath"
	"regexp"
	"sort"
	"strconv"
	"strings"
)

type Clause struct {
	Kind string // requires, ensures, invariant, decreases, modifies, assert...
	Src  string
	Expr *SpecExpr
	Loop int
	File string
	Line int
	Tag  string // optional label: `ensures [name] expr`
}

type Contract struct {
	Key      string // e.g. "value.insertArrayValue", "runtime.(*Scope).EndScope"
	Pkg      string // short package name
	Kind     string // func, method, closure, external, iface, functype
	Requires []*Clause
	Assumes  []*Clause // assumed at entry of the function's own VCs, never asserted at call sites (listed as assumptions)
	Ensures  []*Clause
	Modifies []string // raw targets; nil = not specified (=> everything)
	HasMod   bool
	Invs     map[int][]*Clause
	Steps    map[int][]*Clause // transition invariants: relate the state at a back edge to the state at the loop head (prev)
	ExitSteps map[int][]*Clause // the same relation, checked on the edges that leave the loop (for bottom-tested loops)
	Decr     map[int]*Clause
	FnDecr   *Clause
	Pure     bool
	Trusted  bool // body not verified (assumed)
	Props    []string
	Params   []string // for external/iface: parameter names
	Results  []string
	Panics   []*Clause // allowed explicit panics: "panics" clause
	Ghosts   []*Clause
	Asserts  []*Clause // `assert at call F#k: expr`
	File     string
	Line     int
	NoPanicOnly bool
	Helper      bool // private helper called while an object invariant is suspended: no type-invariant obligation at its returns
}

type Pred struct {
	Name   string
	Pkg    string
	Params []SpecVar
	Body   *SpecExpr
	Src    string
	File   string
	Line   int
	RetTy  string // "" = bool; else spec function returning this type
	Rec    bool
}

type TableFact struct {
	Pkg, Global, Kind string
	File              string
	Line              int
}

type SpecSet struct {
	Contracts map[string]*Contract
	Preds     map[string]*Pred // key: pkg.name and also bare name (if unique)
	Tables    []*TableFact
	FieldInvs map[string]string // "pkg.Type.field" -> "nonnil"
	TypeInvs  map[string]*Clause // "pkg.Type" -> invariant over `self` (pointer to the type)
	Immutable map[string]bool    // "pkg.Type": never written outside its defining packages (checked by inventory)
	Frozen    map[string]bool    // "pkg.Type": fields written only by the function that allocates the object (checked by inventory)
	GhostVars map[string]string  // "pkg.name" -> type: a ghost constant (e.g. "the VM of this execution")
	MapRanges map[string]*MapRangeDecl // "pkg.fn#k" -> declared class of a range-over-map site
	Nondet    map[string]bool          // "pkg.fn callee": allowed call to a nondeterministic source
	Errors    []string
	Files     []string
}

var clauseKw = map[string]bool{"func": true, "method": true, "closure": true, "requires": true, "ensures": true, "modifies": true,
	"loop": true, "pure": true, "props": true, "pred": true, "external": true, "iface": true, "functype": true, "ghost": true,
	"trusted": true, "helper": true, "panics": true, "table": true, "fieldinv": true, "eleminv": true, "typeinv": true, "globalinv": true, "immutable": true, "frozen": true, "ghostconst": true, "assumes": true, "decreases": true, "assert": true, "fn": true, "nopanic": true, "maprange": true, "nondet": true}

var reParamList = regexp.MustCompile(`^([^\s(]+|\([^)]*\)\.[^\s(]+)\s*(?:\(([^)]*)\))?\s*(?:\(([^)]*)\))?\s*$`)

func splitNames(s string) []string {
	var out []string
	for _, p := range strings.Split(s, ",") {
		p = strings.TrimSpace(p)
		if p == "" {
			continue
		}
		// allow "name type" -> name
		f := strings.Fields(p)
		out = append(out, f[0])
	}
	return out
}

func loadSpecs(repo string, pkgDirs map[string]string) *SpecSet {
	ss := &SpecSet{Contracts: map[string]*Contract{}, Preds: map[string]*Pred{}, FieldInvs: map[string]string{}, TypeInvs: map[string]*Clause{}, Immutable: map[string]bool{}, Frozen: map[string]bool{}, GhostVars: map[string]string{}, MapRanges: map[string]*MapRangeDecl{}, Nondet: map[string]bool{}}
	var names []string
	for n := range pkgDirs {
		names = append(names, n)
	}
	sort.Strings(names)
	for _, pkgName := range names {
		dir := pkgDirs[pkgName]
		matches, _ := filepath.Glob(filepath.Join(dir, "zz_contracts*_verif.go"))
		sort.Strings(matches)
		for _, path := range matches {
			data, err := os.ReadFile(path)
			if err != nil {
				continue
			}
			ss.Files = append(ss.Files, path)
			ss.parseFile(pkgName, path, string(data))
		}
	}
	return ss
}

func (ss *SpecSet) errf(file string, line int, f string, a ...interface{}) {
	ss.Errors = append(ss.Errors, fmt.Sprintf("%s:%d: %s", file, line, fmt.Sprintf(f, a...)))
}

type rawClause struct {
	kw   string
	text string
	line int
}

func (ss *SpecSet) parseFile(pkg, path, data string) {
	var clauses []*rawClause
	for i, ln := range strings.Split(data, "\n") {
		t := strings.TrimSpace(ln)
		if !strings.HasPrefix(t, "//@") {
			continue
		}
		body := strings.TrimPrefix(t, "//@")
		trim := strings.TrimSpace(body)
		if trim == "" {
			continue
		}
		// strip trailing comment
		if k := strings.Index(trim, " // "); k >= 0 {
			trim = strings.TrimSpace(trim[:k])
		}
		first := trim
		if k := strings.IndexAny(trim, " \t"); k >= 0 {
			first = trim[:k]
		}
		if clauseKw[first] {
			clauses = append(clauses, &rawClause{kw: first, text: strings.TrimSpace(trim[len(first):]), line: i + 1})
		} else if len(clauses) > 0 {
			clauses[len(clauses)-1].text += " " + trim
		} else {
			ss.errf(path, i+1, "continuation line without a clause")
		}
	}
	var cur *Contract
	for _, rc := range clauses {
		mk := func(kind string) *Clause {
			c := &Clause{Kind: kind, Src: rc.text, File: path, Line: rc.line}
			src := rc.text
			if strings.HasPrefix(src, "[") {
				if k := strings.Index(src, "]"); k > 0 {
					c.Tag = src[1:k]
					src = strings.TrimSpace(src[k+1:])
					c.Src = src
				}
			}
			e, err := parseSpecExpr(src)
			if err != nil {
				ss.errf(path, rc.line, "%v", err)
				return nil
			}
			c.Expr = e
			return c
		}
		switch rc.kw {
		case "func", "method", "closure", "external", "iface", "functype":
			m := reParamList.FindStringSubmatch(rc.text)
			if m == nil {
				ss.errf(path, rc.line, "cannot parse declaration %q", rc.text)
				cur = nil
				continue
			}
			key := pkg + "." + m[1]
			if rc.kw == "external" {
				key = "ext:" + m[1]
			} else if rc.kw == "iface" {
				key = "iface:" + pkg + "." + m[1]
				if m[1] == "error.Error" {
					key = "iface:error.Error" // the predeclared error interface
				}
			} else if rc.kw == "functype" {
				key = "functype:" + pkg + "." + m[1]
			}
			cur = &Contract{Key: key, Pkg: pkg, Kind: rc.kw, Invs: map[int][]*Clause{}, Steps: map[int][]*Clause{}, ExitSteps: map[int][]*Clause{}, Decr: map[int]*Clause{}, File: path, Line: rc.line}
			cur.Params = splitNames(m[2])
			cur.Results = splitNames(m[3])
			if _, dup := ss.Contracts[key]; dup {
				ss.errf(path, rc.line, "duplicate contract for %s", key)
			}
			ss.Contracts[key] = cur
		case "pred", "fn":
			// pred name(x T, y T) = expr     |  fn name(x T) RetT = expr
			eq := strings.Index(rc.text, "=")
			lp := strings.Index(rc.text, "(")
			rp := strings.Index(rc.text, ")")
			if lp < 0 || rp < lp {
				ss.errf(path, rc.line, "bad pred declaration")
				continue
			}
			// find the '=' that follows the parameter list
			eq = strings.Index(rc.text[rp:], "=")
			if eq < 0 {
				ss.errf(path, rc.line, "bad pred declaration (no =)")
				continue
			}
			eq += rp
			name := strings.TrimSpace(rc.text[:lp])
			pr := &Pred{Name: name, Pkg: pkg, File: path, Line: rc.line, Src: rc.text}
			pr.RetTy = strings.TrimSpace(rc.text[rp+1 : eq])
			for _, p := range strings.Split(rc.text[lp+1:rp], ",") {
				f := strings.Fields(strings.TrimSpace(p))
				if len(f) == 0 {
					continue
				}
				ty := "int"
				if len(f) > 1 {
					ty = f[1]
				}
				pr.Params = append(pr.Params, SpecVar{f[0], ty})
			}
			e, err := parseSpecExpr(rc.text[eq+1:])
			if err != nil {
				ss.errf(path, rc.line, "%v", err)
				continue
			}
			pr.Body = e
			ss.Preds[pkg+"."+name] = pr
			cur = nil
		case "typeinv":
			f := strings.Fields(rc.text)
			if len(f) < 2 {
				ss.errf(path, rc.line, "typeinv <Type> <expr over self>")
				continue
			}
			src := strings.TrimSpace(rc.text[len(f[0]):])
			e, err := parseSpecExpr(src)
			if err != nil {
				ss.errf(path, rc.line, "%v", err)
				continue
			}
			ss.TypeInvs[pkg+"."+f[0]] = &Clause{Kind: "typeinv", Src: src, Expr: e, File: path, Line: rc.line}
		case "ghostconst":
			f := strings.Fields(rc.text)
			if len(f) != 2 {
				ss.errf(path, rc.line, "ghostconst <name> <type>")
				continue
			}
			ss.GhostVars[pkg+"."+f[0]] = f[1]
		case "maprange":
			d, err := parseMapRangeDecl(pkg, rc.text)
			if err != nil {
				ss.errf(path, rc.line, "%v", err)
				continue
			}
			d.File, d.Line = path, rc.line
			ss.MapRanges[d.Key] = d
		case "nondet":
			t := rc.text
			if i := strings.Index(t, " : "); i >= 0 {
				t = t[:i]
			}
			f := strings.Fields(t)
			if len(f) != 2 {
				ss.errf(path, rc.line, "nondet <fn> <callee> : <why>")
				continue
			}
			ss.Nondet[pkg+"."+f[0]+" "+f[1]] = true
		case "frozen":
			for _, f := range strings.Fields(rc.text) {
				ss.Frozen[pkg+"."+f] = true
			}
		case "immutable":
			for _, f := range strings.Fields(rc.text) {
				ss.Immutable[pkg+"."+f] = true
			}
		case "globalinv":
			f := strings.Fields(rc.text)
			if len(f) != 2 || f[1] != "nonnil" {
				ss.errf(path, rc.line, "globalinv <var> nonnil")
				continue
			}
			ss.FieldInvs["global:"+pkg+"."+f[0]] = f[1]
		case "eleminv":
			// eleminv <elemtype> nonnil : elements of slices of that element type are never nil
			f := strings.Fields(rc.text)
			if len(f) != 2 || f[1] != "nonnil" {
				ss.errf(path, rc.line, "eleminv <[*]Type> nonnil")
				continue
			}
			name := f[0]
			if strings.HasPrefix(name, "*") {
				name = "P_" + pkg + "." + name[1:]
			} else {
				name = pkg + "." + name
			}
			ss.FieldInvs["elem:"+name] = f[1]
		case "fieldinv":
			f := strings.Fields(rc.text)
			if len(f) != 2 || (f[1] != "nonnil" && f[1] != "nullable") {
				ss.errf(path, rc.line, "fieldinv <Type.field> nonnil|nullable")
				continue
			}
			ss.FieldInvs[pkg+"."+f[0]] = f[1]
		case "table":
			f := strings.Fields(rc.text)
			if len(f) != 2 {
				ss.errf(path, rc.line, "table <global> <kind>")
				continue
			}
			ss.Tables = append(ss.Tables, &TableFact{Pkg: pkg, Global: f[0], Kind: f[1], File: path, Line: rc.line})
		default:
			if cur == nil {
				ss.errf(path, rc.line, "clause %q outside a contract block", rc.kw)
				continue
			}
			switch rc.kw {
			case "requires":
				if c := mk("requires"); c != nil {
					cur.Requires = append(cur.Requires, c)
				}
			case "ensures":
				if c := mk("ensures"); c != nil {
					cur.Ensures = append(cur.Ensures, c)
				}
			case "assumes":
				if c := mk("assumes"); c != nil {
					cur.Assumes = append(cur.Assumes, c)
				}
			case "panics":
				if c := mk("panics"); c != nil {
					cur.Panics = append(cur.Panics, c)
				}
			case "decreases":
				if c := mk("decreases"); c != nil {
					cur.FnDecr = c
				}
			case "modifies":
				cur.HasMod = true
				for _, t := range splitTopLevel(rc.text) {
					t = strings.TrimSpace(t)
					if t != "" && t != "nothing" {
						cur.Modifies = append(cur.Modifies, t)
					}
				}
			case "pure":
				cur.Pure = true
				cur.HasMod = true
			case "trusted":
				cur.Trusted = true
			case "helper":
				cur.Helper = true
			case "nopanic":
				cur.NoPanicOnly = true
			case "props":
				cur.Props = append(cur.Props, strings.Fields(rc.text)...)
			case "ghost":
				cur.Ghosts = append(cur.Ghosts, &Clause{Kind: "ghost", Src: rc.text, File: path, Line: rc.line})
			case "assert":
				cur.Asserts = append(cur.Asserts, &Clause{Kind: "assert", Src: rc.text, File: path, Line: rc.line})
			case "loop":
				f := strings.Fields(rc.text)
				if len(f) < 3 {
					ss.errf(path, rc.line, "loop K invariant|decreases E")
					continue
				}
				k, err := strconv.Atoi(f[0])
				if err != nil {
					ss.errf(path, rc.line, "loop number: %v", err)
					continue
				}
				rest := strings.TrimSpace(rc.text[strings.Index(rc.text, f[1])+len(f[1]):])
				save := rc.text
				rc.text = rest
				switch f[1] {
				case "invariant":
					if c := mk("invariant"); c != nil {
						c.Loop = k
						cur.Invs[k] = append(cur.Invs[k], c)
					}
				case "decreases":
					if c := mk("decreases"); c != nil {
						c.Loop = k
						cur.Decr[k] = c
					}
				case "step":
					if c := mk("step"); c != nil {
						c.Loop = k
						cur.Steps[k] = append(cur.Steps[k], c)
					}
				case "exitstep":
					if c := mk("exitstep"); c != nil {
						c.Loop = k
						cur.ExitSteps[k] = append(cur.ExitSteps[k], c)
					}
				default:
					ss.errf(path, rc.line, "unknown loop clause %q", f[1])
				}
				rc.text = save
			}
		}
	}
}

// splitTopLevel splits on commas that are not inside parentheses or brackets.
func splitTopLevel(s string) []string {
	var out []string
	depth, start := 0, 0
	for i, r := range s {
		switch r {
		case '(', '[':
			depth++
		case ')', ']':
			depth--
		case ',':
			if depth == 0 {
				out = append(out, s[start:i])
				start = i + 1
			}
		}
	}
	return append(out, s[start:])
}
