#!/bin/bash
# usage: seeded.sh <PROP> <patch.diff>   -- applies a seeded change to /repo, runs the property's quick check, restores /repo
P=$1; D=$2
cd /repo || exit 3
git diff --quiet || { echo "repo dirty"; exit 3; }
git apply "$D" || { echo "PATCH DOES NOT APPLY"; exit 3; }
cd /verif && ./check "$P" 2>&1 | grep -E "VIOLATION|UNDECIDED|KNOWN|CHECK-ERROR|tier=" | cut -c1-260 | head -12
echo "exit=${PIPESTATUS[0]}"
git -C /repo checkout -- .
# the run above rewrote evidence/<ID>.json from the changed tree: put the committed record back
git -C /verif checkout -- evidence/$P.json 2>/dev/null

