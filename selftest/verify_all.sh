#!/bin/bash
# re-runs every claimed check on the current tree without touching the ledgers; every line must say exit=0 and 0 violations
cd /verif
for f in props/C*.json; do p=$(basename $f .json); ./check $p > /tmp/verify_$p.log 2>&1; rc=$?; echo "$p exit=$rc $(grep -c '^UNDECIDED' /tmp/verify_$p.log) undecided $(grep -c '^VIOLATION' /tmp/verify_$p.log) violations $(grep -o 'wall=.*' /tmp/verify_$p.log)"; done
