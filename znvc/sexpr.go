package main

// Parser for contract expressions (Gobra-flavoured Go expression syntax).

import (
	"fmt"
	"strings"
	"unicode"
)

type SpecExpr struct {
	Op   string // "id","int","str","rune","float","bin","un","call","sel","idx","slice","forall","exists","old","ite","let","wit","type","cast"
	Name string // identifier / operator / field
	Args []*SpecExpr
	Vars []SpecVar // quantifier / let vars
	Pos  int
	Trig []*SpecExpr // explicit triggers
}

type SpecVar struct {
	Name string
	Type string
}

func (e *SpecExpr) String() string {
	if e == nil {
		return "<nil>"
	}
	switch e.Op {
	case "id", "int", "float":
		return e.Name
	case "str":
		return fmt.Sprintf("%q", e.Name)
	case "rune":
		return "'" + e.Name + "'"
	case "bin":
		return "(" + e.Args[0].String() + " " + e.Name + " " + e.Args[1].String() + ")"
	case "un":
		return e.Name + e.Args[0].String()
	case "call":
		var a []string
		for _, x := range e.Args[1:] {
			a = append(a, x.String())
		}
		return e.Args[0].String() + "(" + strings.Join(a, ", ") + ")"
	case "sel":
		return e.Args[0].String() + "." + e.Name
	case "idx":
		return e.Args[0].String() + "[" + e.Args[1].String() + "]"
	case "slice":
		return e.Args[0].String() + "[" + e.Args[1].String() + ":" + e.Args[2].String() + "]"
	case "forall", "exists":
		var v []string
		for _, x := range e.Vars {
			v = append(v, x.Name+" "+x.Type)
		}
		return "(" + e.Op + " " + strings.Join(v, ", ") + " :: " + e.Args[0].String() + ")"
	case "old":
		return "old(" + e.Args[0].String() + ")"
	case "ite":
		return "(" + e.Args[0].String() + " ? " + e.Args[1].String() + " : " + e.Args[2].String() + ")"
	case "let":
		return "(let " + e.Vars[0].Name + " = " + e.Args[0].String() + " in " + e.Args[1].String() + ")"
	case "wit":
		return "@" + e.Name
	case "type":
		return e.Name
	case "none":
		return ""
	}
	return "?" + e.Op
}

type tok struct {
	k   string // "id","int","float","str","rune","op","wit","eof"
	s   string
	pos int
}

func lexSpec(src string) ([]tok, error) {
	var out []tok
	rs := []rune(src)
	i := 0
	for i < len(rs) {
		c := rs[i]
		switch {
		case unicode.IsSpace(c):
			i++
		case c == '/' && i+1 < len(rs) && rs[i+1] == '/':
			i = len(rs)
		case unicode.IsLetter(c) || c == '_' || c == '$':
			j := i
			for j < len(rs) && (unicode.IsLetter(rs[j]) || unicode.IsDigit(rs[j]) || rs[j] == '_' || rs[j] == '$') {
				j++
			}
			// name#k: the k-th local of that name (in source order)
			if j+1 < len(rs) && rs[j] == '#' && unicode.IsDigit(rs[j+1]) {
				j++
				for j < len(rs) && unicode.IsDigit(rs[j]) {
					j++
				}
			}
			out = append(out, tok{"id", string(rs[i:j]), i})
			i = j
		case unicode.IsDigit(c):
			j := i
			isF := false
			if c == '0' && j+1 < len(rs) && (rs[j+1] == 'x' || rs[j+1] == 'X') {
				j += 2
				for j < len(rs) && (unicode.IsDigit(rs[j]) || strings.ContainsRune("abcdefABCDEF", rs[j])) {
					j++
				}
			} else {
				for j < len(rs) && unicode.IsDigit(rs[j]) {
					j++
				}
				if j+1 < len(rs) && rs[j] == '.' && unicode.IsDigit(rs[j+1]) {
					isF = true
					j++
					for j < len(rs) && unicode.IsDigit(rs[j]) {
						j++
					}
				}
			}
			if isF {
				out = append(out, tok{"float", string(rs[i:j]), i})
			} else {
				out = append(out, tok{"int", string(rs[i:j]), i})
			}
			i = j
		case c == '"':
			j := i + 1
			var sb strings.Builder
			for j < len(rs) && rs[j] != '"' {
				if rs[j] == '\\' && j+1 < len(rs) {
					j++
					switch rs[j] {
					case 'n':
						sb.WriteRune('\n')
					case 't':
						sb.WriteRune('\t')
					case 'r':
						sb.WriteRune('\r')
					default:
						sb.WriteRune(rs[j])
					}
				} else {
					sb.WriteRune(rs[j])
				}
				j++
			}
			if j >= len(rs) {
				return nil, fmt.Errorf("unterminated string at %d", i)
			}
			out = append(out, tok{"str", sb.String(), i})
			i = j + 1
		case c == '\'':
			j := i + 1
			var r rune
			if j < len(rs) && rs[j] == '\\' && j+1 < len(rs) {
				switch rs[j+1] {
				case 'n':
					r = '\n'
				case 't':
					r = '\t'
				case 'r':
					r = '\r'
				case '0':
					r = 0
				default:
					r = rs[j+1]
				}
				j += 2
			} else if j < len(rs) {
				r = rs[j]
				j++
			}
			if j >= len(rs) || rs[j] != '\'' {
				return nil, fmt.Errorf("bad rune literal at %d", i)
			}
			out = append(out, tok{"int", fmt.Sprintf("%d", r), i})
			i = j + 1
		case c == '@':
			// call witness: @name#k  (name may contain dots, $, parens are not allowed)
			j := i + 1
			for j < len(rs) && (unicode.IsLetter(rs[j]) || unicode.IsDigit(rs[j]) || strings.ContainsRune("_$", rs[j])) {
				j++
			}
			if j < len(rs) && rs[j] == '#' {
				j++
				for j < len(rs) && unicode.IsDigit(rs[j]) {
					j++
				}
			}
			out = append(out, tok{"wit", string(rs[i+1 : j]), i})
			i = j
		default:
			ops := []string{"<==>", "==>", "::", "==", "!=", "<=", ">=", "&&", "||", ".(", "<", ">", "+", "-", "*", "/", "%", "!", "(", ")", "[", "]", ".", ",", ":", "?", "=", "{", "}", "#", "&", "|"}
			matched := false
			for _, op := range ops {
				if strings.HasPrefix(string(rs[i:min(i+len(op), len(rs))]), op) {
					out = append(out, tok{"op", op, i})
					i += len([]rune(op))
					matched = true
					break
				}
			}
			if !matched {
				return nil, fmt.Errorf("unexpected character %q at %d", c, i)
			}
		}
	}
	out = append(out, tok{"eof", "", len(rs)})
	return out, nil
}

type specParser struct {
	toks []tok
	p    int
	src  string
}

func parseSpecExpr(src string) (e *SpecExpr, err error) {
	toks, err := lexSpec(src)
	if err != nil {
		return nil, err
	}
	sp := &specParser{toks: toks, src: src}
	defer func() {
		if r := recover(); r != nil {
			if pe, ok := r.(parseErr); ok {
				err = fmt.Errorf("%s (in %q)", string(pe), src)
				return
			}
			panic(r)
		}
	}()
	e = sp.expr()
	if sp.peek().k != "eof" {
		sp.fail("unexpected token %q", sp.peek().s)
	}
	return e, nil
}

type parseErr string

func (p *specParser) fail(f string, a ...interface{}) {
	panic(parseErr(fmt.Sprintf("spec parse error at %d: ", p.peek().pos) + fmt.Sprintf(f, a...)))
}
func (p *specParser) peek() tok { return p.toks[p.p] }
func (p *specParser) next() tok { t := p.toks[p.p]; p.p++; return t }
func (p *specParser) isOp(s string) bool {
	t := p.peek()
	return t.k == "op" && t.s == s
}
func (p *specParser) isKw(s string) bool {
	t := p.peek()
	return t.k == "id" && t.s == s
}
func (p *specParser) expect(s string) {
	if !p.isOp(s) {
		p.fail("expected %q, got %q", s, p.peek().s)
	}
	p.next()
}

func (p *specParser) expr() *SpecExpr {
	if p.isKw("forall") || p.isKw("exists") {
		op := p.next().s
		var vars []SpecVar
		for {
			var names []string
			names = append(names, p.ident())
			for p.isOp(",") {
				p.next()
				names = append(names, p.ident())
			}
			ty := p.typeName()
			for _, n := range names {
				vars = append(vars, SpecVar{n, ty})
			}
			if p.isOp("::") {
				break
			}
			if p.isOp(",") {
				p.next()
				continue
			}
			p.fail("expected :: in quantifier")
		}
		p.expect("::")
		var trig []*SpecExpr
		for p.isOp("{") {
			p.next()
			trig = append(trig, p.expr())
			for p.isOp(",") {
				p.next()
				trig = append(trig, p.expr())
			}
			p.expect("}")
		}
		body := p.expr()
		return &SpecExpr{Op: op, Vars: vars, Args: []*SpecExpr{body}, Trig: trig}
	}
	if p.isKw("let") {
		p.next()
		n := p.ident()
		p.expect("=")
		v := p.exprNoIn()
		if !p.isKw("in") {
			p.fail("expected 'in'")
		}
		p.next()
		b := p.expr()
		return &SpecExpr{Op: "let", Vars: []SpecVar{{n, ""}}, Args: []*SpecExpr{v, b}}
	}
	c := p.iff()
	if p.isOp("?") {
		p.next()
		a := p.expr()
		p.expect(":")
		b := p.expr()
		return &SpecExpr{Op: "ite", Args: []*SpecExpr{c, a, b}}
	}
	return c
}

func (p *specParser) exprNoIn() *SpecExpr { return p.expr() }

func (p *specParser) ident() string {
	t := p.next()
	if t.k != "id" {
		p.fail("expected identifier, got %q", t.s)
	}
	return t.s
}

// type names: int, bool, string, ref, *T, pkg.T, []T
func (p *specParser) typeName() string {
	var sb strings.Builder
	for {
		if p.isOp("*") {
			p.next()
			sb.WriteString("*")
			continue
		}
		if p.isOp("[") {
			p.next()
			p.expect("]")
			sb.WriteString("[]")
			continue
		}
		break
	}
	sb.WriteString(p.ident())
	if p.isOp(".") {
		p.next()
		sb.WriteString("." + p.ident())
	}
	return sb.String()
}

func (p *specParser) iff() *SpecExpr {
	l := p.implies()
	for p.isOp("<==>") {
		p.next()
		r := p.implies()
		l = &SpecExpr{Op: "bin", Name: "<==>", Args: []*SpecExpr{l, r}}
	}
	return l
}

func (p *specParser) implies() *SpecExpr {
	l := p.or()
	if p.isOp("==>") {
		p.next()
		var r *SpecExpr
		if p.isKw("forall") || p.isKw("exists") || p.isKw("let") {
			r = p.expr()
		} else {
			r = p.implies()
		}
		return &SpecExpr{Op: "bin", Name: "==>", Args: []*SpecExpr{l, r}}
	}
	return l
}

func (p *specParser) or() *SpecExpr {
	l := p.and()
	for p.isOp("||") {
		p.next()
		r := p.and()
		l = &SpecExpr{Op: "bin", Name: "||", Args: []*SpecExpr{l, r}}
	}
	return l
}

func (p *specParser) and() *SpecExpr {
	l := p.cmp()
	for p.isOp("&&") {
		p.next()
		var r *SpecExpr
		if p.isKw("forall") || p.isKw("exists") || p.isKw("let") {
			r = p.expr()
		} else {
			r = p.cmp()
		}
		l = &SpecExpr{Op: "bin", Name: "&&", Args: []*SpecExpr{l, r}}
	}
	return l
}

func (p *specParser) cmp() *SpecExpr {
	l := p.add()
	for {
		t := p.peek()
		if t.k == "op" && (t.s == "==" || t.s == "!=" || t.s == "<" || t.s == "<=" || t.s == ">" || t.s == ">=") {
			p.next()
			r := p.add()
			l = &SpecExpr{Op: "bin", Name: t.s, Args: []*SpecExpr{l, r}}
			continue
		}
		break
	}
	return l
}

func (p *specParser) add() *SpecExpr {
	l := p.mul()
	for p.isOp("+") || p.isOp("-") {
		op := p.next().s
		r := p.mul()
		l = &SpecExpr{Op: "bin", Name: op, Args: []*SpecExpr{l, r}}
	}
	return l
}

func (p *specParser) mul() *SpecExpr {
	l := p.unary()
	for p.isOp("*") || p.isOp("/") || p.isOp("%") {
		op := p.next().s
		r := p.unary()
		l = &SpecExpr{Op: "bin", Name: op, Args: []*SpecExpr{l, r}}
	}
	return l
}

func (p *specParser) unary() *SpecExpr {
	if p.isOp("!") {
		p.next()
		return &SpecExpr{Op: "un", Name: "!", Args: []*SpecExpr{p.unary()}}
	}
	if p.isOp("-") {
		p.next()
		return &SpecExpr{Op: "un", Name: "-", Args: []*SpecExpr{p.unary()}}
	}
	return p.postfix()
}

func (p *specParser) postfix() *SpecExpr {
	e := p.primary()
	for {
		switch {
		case p.isOp(".("):
			p.next()
			ty := p.typeName()
			p.expect(")")
			e = &SpecExpr{Op: "cast", Name: ty, Args: []*SpecExpr{e}}
		case p.isOp("."):
			p.next()
			e = &SpecExpr{Op: "sel", Name: p.ident(), Args: []*SpecExpr{e}}
		case p.isOp("["):
			p.next()
			var lo, hi *SpecExpr
			if !p.isOp(":") {
				lo = p.expr()
			}
			if p.isOp(":") {
				p.next()
				if !p.isOp("]") {
					hi = p.expr()
				}
				p.expect("]")
				if lo == nil {
					lo = &SpecExpr{Op: "none"}
				}
				if hi == nil {
					hi = &SpecExpr{Op: "none"}
				}
				e = &SpecExpr{Op: "slice", Args: []*SpecExpr{e, lo, hi}}
			} else {
				p.expect("]")
				e = &SpecExpr{Op: "idx", Args: []*SpecExpr{e, lo}}
			}
		case p.isOp("("):
			p.next()
			args := []*SpecExpr{e}
			if !p.isOp(")") {
				for {
					// type argument like *value.Number
					if p.isOp("*") {
						save := p.p
						ty := p.tryType()
						if ty != "" {
							args = append(args, &SpecExpr{Op: "type", Name: ty})
						} else {
							p.p = save
							args = append(args, p.expr())
						}
					} else {
						args = append(args, p.expr())
					}
					if p.isOp(",") {
						p.next()
						continue
					}
					break
				}
			}
			p.expect(")")
			e = &SpecExpr{Op: "call", Args: args}
		default:
			return e
		}
	}
}

func (p *specParser) tryType() (ty string) {
	defer func() {
		if r := recover(); r != nil {
			if _, ok := r.(parseErr); ok {
				ty = ""
				return
			}
			panic(r)
		}
	}()
	t := p.typeName()
	if !(p.isOp(",") || p.isOp(")")) {
		return ""
	}
	return t
}

func (p *specParser) primary() *SpecExpr {
	t := p.next()
	switch t.k {
	case "id":
		if t.s == "old" && p.isOp("(") {
			p.next()
			e := p.expr()
			p.expect(")")
			return &SpecExpr{Op: "old", Args: []*SpecExpr{e}}
		}
		return &SpecExpr{Op: "id", Name: t.s, Pos: t.pos}
	case "int":
		return &SpecExpr{Op: "int", Name: t.s}
	case "float":
		return &SpecExpr{Op: "float", Name: t.s}
	case "str":
		return &SpecExpr{Op: "str", Name: t.s}
	case "wit":
		return &SpecExpr{Op: "wit", Name: t.s}
	case "op":
		if t.s == "(" {
			e := p.expr()
			p.expect(")")
			return e
		}
	}
	p.p--
	p.fail("unexpected token %q", t.s)
	return nil
}
