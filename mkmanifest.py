#!/usr/bin/env python3
"""Regenerates MANIFEST.json from props/*.json (claimed properties) and na.json (not applicable, with reasons)."""
import json, glob, os, subprocess
root = os.path.dirname(os.path.abspath(__file__))
props = {}
for l in open(os.path.join(root, 'properties.jsonl')):
    p = json.loads(l); props[p['id']] = p
claimed = {}
for f in sorted(glob.glob(os.path.join(root, 'props', 'C*.json'))):
    c = json.load(open(f))
    if os.path.exists(os.path.join(root, 'ledger', c['id'] + '.json')):
        claimed[c['id']] = c
na = json.load(open(os.path.join(root, 'na.json')))
hook_commits = subprocess.run(['git', '-C', '/repo', 'log', '--format=%H %s'], capture_output=True, text=True).stdout.splitlines()
hooks = [l.split()[0] for l in hook_commits if ' verif hook' in l or l.split(' ', 1)[1].startswith('verif hook')]
checks = []
for pid, c in claimed.items():
    checks.append({
        "property_id": pid,
        "quick_cmd": f"./check {pid} --tier quick",
        "thorough_cmd": f"./check {pid} --tier thorough",
        "evidence_file": f"/verif/evidence/{pid}.json",
        "replay_cmd_template": "./check --replay {path}",
        "engine": "znvc",
        "level_claimed": {
            "category": "proof",
            "text": "Deductive proof, function by function: every listed function of /repo's working tree is lowered from go/ssa to verification conditions under its //@ contract (pre/postconditions, loop invariants, frames, safety of every index/slice/nil/type-assert/overflow), and each condition is discharged by an SMT solver for all inputs and all loop iterations. Claimed clauses: " + "; ".join(c.get('clauses_claimed', [])) + ((". NOT claimed: " + "; ".join(c['clauses_not_claimed'])) if c.get('clauses_not_claimed') else ""),
            "design_ref": "DESIGN.md §5 " + pid
        },
        "level_note": "Trusted: the znvc generator, go/ssa, the SMT solvers, contracts assumed for external (stdlib) functions, callees without contract (listed per run in evidence.coverage.trusted_base / assumptions); the glue from per-function contracts to whole-program statements is a paper argument (DESIGN §1). " + " ".join(c.get('assumptions', [])),
        "technique": "contract-based deductive verification (self-generated weakest-precondition VCs over go/ssa, SMT-discharged)" + ((" plus whole-module site inventories evaluated on go/ssa as side conditions of the frame arguments (" + ", ".join(c['inventories']) + "; reported as obligations of kind inventory)") if c.get('inventories') else "")
    })
m = {
    "version": 1,
    "setup_cmd": "cd /verif/znvc && GOFLAGS=-mod=mod GOPROXY=off GOSUMDB=off GOTOOLCHAIN=local go build -o /verif/bin/znvc .",
    "hooks": {
        "guard": "verif",
        "enable": "checks load /repo with `-tags verif` (go/packages); hook files are <pkg>/zz_contracts_verif.go: //go:build verif, package clause and //@ contract comments only (no executable code)",
        "baseline_off_cmd": "cd /repo && go test -mod=mod -json -vet=off -count=1 -timeout 25m ./...",
        "source_commits": hooks,
        "add_only": True
    },
    "engines": [{"name": "znvc", "path": "/verif/znvc", "serves_properties": sorted(claimed),
                 "kind_free_text": "contract-based deductive verifier for Go written for this task: go/ssa (NaiveForm) -> passive guarded commands -> one SMT-LIB query per obligation; z3 5.1.0, cvc5 1.0.3, z3 4.8.12"}],
    "checks": checks,
    "not_applicable": [{"property_id": k, "reason": v} for k, v in sorted(na.items()) if k not in claimed],
    "notes": "Contracts live in /repo/**/zz_contracts_verif.go (build tag verif). ./check <ID> rebuilds znvc if stale, reloads /repo's working tree, regenerates and discharges every obligation. Verdict rules: DESIGN.md §4.3."
}
json.dump(m, open(os.path.join(root, 'MANIFEST.json'), 'w'), indent=1, ensure_ascii=False)
print("claimed:", sorted(claimed), "n/a:", [x['property_id'] for x in m['not_applicable']])
